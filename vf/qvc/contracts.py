"""Sidecar contracts: registry, application at call sites, and verification of a function against its contract."""
import ast
import re
import importlib
import os
import pkgutil
import sys
import time
import traceback

import z3

from . import theory as T
from . import folds as FO
from .values import (SV, Ver, DictVal, SetVal, ListVal, PObj, ItemsView, AssignVal, Closure, BoundMethod, ClassRef,
                     Unsupported, PathInfeasible, VerifBug, PyExc, zreal, zint)
from .interp import Engine, Frame, _Return

REGISTRY = {}      # qualname -> Contract


class Contract:
    def __init__(self, qualname, props, instances, requires=(), ensures=(), effects=(), raises=(), modifies=(),
                 loops=None, comps=None, returns=None, decreases=None, trusted=False, note="", canaries=(),
                 call_when=None, pure=False, gen=None, may_raise=(), taint=(), inherited=None, budget=None,
                 quick_instances=None):
        self.quick_instances = quick_instances      # indices verified in the quick tier (default: all); thorough: all
        self.budget = budget or {}                  # {"paths": n, "time": seconds} for functions with many paths
        self.inherited = inherited                  # (param names) the method may be inherited unchanged from list
        self.taint = list(taint)                    # parameters standing for a symbolic weight (non-interference)
        self.may_raise = list(may_raise)            # exceptions the function may raise exactly as its base class does
        self.gen = gen                              # fold contract of a generator function
        self.qualname = qualname
        self.props = list(props)
        self.instances = list(instances)            # list of {param: kind}
        self.requires, self.ensures = list(requires), list(ensures)
        self.effects = list(effects)                # [(target_src, expr_src)]
        self.raises = list(raises)                  # [(ExcName, cond_src)]
        self.modifies = list(modifies)              # param names whose object may change arbitrarily (beyond effects)
        self.loops = loops or {}
        self.comps = comps or {}
        self.returns = returns
        self.decreases = decreases
        self.trusted = trusted                      # contract assumed, body not verified (listed in evidence)
        self.note = note
        self.canaries = list(canaries)              # [(index of ensures, falsified source)]
        self.call_when = call_when                  # optional predicate(eng, locals) restricting call-site use
        self.pure = pure

    def usable_at_call(self, eng, locals_):
        if self.call_when is not None:
            try:
                return bool(self.call_when(eng, locals_))
            except Unsupported:
                return False
        return True

    @property
    def module(self):
        return self.qualname.split(":")[0]

    @property
    def funcpath(self):
        return self.qualname.split(":")[1]


def contract(qualname, **kw):
    c = Contract(qualname, **kw)
    REGISTRY[qualname] = c
    return c


def load_contracts():
    from .. import VERIF
    d = os.path.join(VERIF, "contracts")
    if VERIF not in sys.path:
        sys.path.insert(0, VERIF)
    REGISTRY.clear()
    for m in sorted(pkgutil.iter_modules([d])):
        name = "contracts." + m.name
        if name in sys.modules:
            importlib.reload(sys.modules[name])
        else:
            importlib.import_module(name)
    return REGISTRY


# ------------------------------------------------------------------------------------------- parameter construction
MODEL_ATTRS_MATRIX = ("_degree", "_variables", "_num_binary_variables", "_name")


def make_param(eng, kind, hint):
    if kind == "termdict":
        return eng.alloc(DictVal(FO.base(eng, T.Key, T.Real, hint), pyclass="dict"))
    if kind.startswith("cmodel:"):
        # a constrained model whose recorded constraints are arbitrary lists (one per relation)
        from . import enumth as EN
        o = make_model(eng, kind.split(":", 1)[1], hint)
        o.attrs["_constraints"] = {k: EN.new_clist(eng, "%s_%s" % (hint, k)) for k in ("eq", "ne", "lt", "le", "gt", "ge")}
        return o
    if kind.startswith("model:"):
        return make_model(eng, kind.split(":", 1)[1], hint)
    if kind.startswith("newmodel:"):
        return make_model(eng, kind.split(":", 1)[1], hint, fresh_empty=True)
    if kind in ("real", "int", "bool", "label", "key"):
        return eng.fresh(kind, hint)
    if kind == "labelkey":         # a tuple of labels of unknown length (varargs given as *key)
        return eng.fresh("key", hint)
    if kind == "bassign":
        return AssignVal("bool")
    if kind == "sassign":
        return AssignVal("spin")
    if kind == "bassign_seq":
        return AssignVal("bool", "list")
    if kind == "sassign_seq":
        return AssignVal("spin", "list")
    if kind == "none":
        return None
    if kind == "valmap":
        return eng.alloc(DictVal(FO.base(eng, T.Label, T.Real, hint), pyclass="dict"))
    if kind == "labelset":
        eng.nfresh += 1
        mem = z3.Const("%s_mem!%d" % (hint, eng.nfresh), z3.ArraySort(T.Label, T.Bool))
        card = z3.Int("%s_card!%d" % (hint, eng.nfresh))
        eng.facts.add(z3.And(card >= 0, card == T.CARD(mem)))
        return eng.alloc(SetVal(mem, card))
    if kind == "rid":
        from . import lists as LS
        return LS.new_rid(eng, hint)
    if kind == "optrid":
        return eng.fresh_optrid(hint)
    if kind == "slice":
        return SV(None, "slice")
    if kind == "keyset":
        from .values import AbstractKeySet
        return AbstractKeySet()
    if kind.startswith("sol:"):
        from . import solth as SO
        return SO.make(eng, kind[4:], hint)
    if kind in ("asgpred", "asgfun"):
        from . import enumth as EN
        return EN.param_fn(eng, "valid" if kind == "asgpred" else "value", hint)
    if kind == "newresults":
        from . import lists as LS
        o = eng.alloc(PObj(eng.db.classes["AnnealResults"]))
        o.lstore = eng.alloc(LS.LHolder(LS.empty(eng)))
        return o
    if kind == "resiter":
        from . import lists as LS
        return LS.ResIter()
    if kind.startswith("results"):
        from . import lists as LS
        o = eng.alloc(PObj(eng.db.classes["AnnealResults"]))
        o.lstore = eng.alloc(LS.LHolder(LS.base(eng, hint)))
        o.attrs["best"] = eng.fresh_optrid(hint + "_best")
        return o
    if kind.startswith("class:"):
        return ClassRef(eng.db.classes[kind[6:]])
    if kind.startswith("const:"):
        return ast.literal_eval(kind[6:])
    if kind == "tuple:":
        return ()
    if kind == "emptydict":
        return {}
    if kind.startswith("tuple:"):
        return tuple(make_param(eng, k, hint + str(i)) for i, k in enumerate(kind[6:].split(",")))
    raise Unsupported("parameter kind %s" % kind)


def value_matches_kind(eng, v, kind):
    """does the actual argument v have the shape that `kind` generates for verification?  (conservative: unknown
    combinations count as not matching)"""
    from .values import SetVal, ListVal
    if kind is None:
        return True
    if kind == "none":
        return v is None
    if kind == "termdict":
        return isinstance(v, DictVal) and v.ver.ksort == T.Key or (isinstance(v, dict) and not v)
    if kind == "emptydict":
        return isinstance(v, dict) and not v
    if kind.startswith("cmodel:"):
        from . import enumth as EN
        return isinstance(v, PObj) and v.cls.name == kind.split(":", 1)[1] and \
            all(isinstance(x, EN.CList) for x in (v.attrs.get("_constraints") or {"": None}).values())
    if kind.startswith("model:") or kind.startswith("newmodel:"):
        return isinstance(v, PObj) and v.cls.name == kind.split(":", 1)[1]
    if kind == "real":
        return (isinstance(v, SV) and v.t in ("real", "int")) or (is_num_(v) and not isinstance(v, bool))
    if kind == "int":
        return (isinstance(v, SV) and v.t == "int") or (isinstance(v, int) and not isinstance(v, bool))
    if kind == "bool":
        return isinstance(v, bool) or (isinstance(v, SV) and v.t == "bool")
    if kind == "label":
        # an integer used as a label (the integer labels of an enumerated / reduced model) is a label
        return isinstance(v, SV) and v.t in ("label", "int") or isinstance(v, (str, int)) and not isinstance(v, bool)
    if kind == "key":
        return isinstance(v, SV) and v.t == "key" or (isinstance(v, tuple) and all(value_matches_kind(eng, x, "label") for x in v))
    if kind == "labelkey":
        return isinstance(v, SV) and v.t == "key"
    if kind in ("bassign", "sassign", "bassign_seq", "sassign_seq"):
        return isinstance(v, AssignVal)
    if kind == "valmap":
        return isinstance(v, DictVal) and v.ver.ksort == T.Label
    if kind == "labelset":
        return isinstance(v, SetVal)
    if kind.startswith("const:"):
        try:
            return v == ast.literal_eval(kind[6:]) and type(v) is type(ast.literal_eval(kind[6:]))
        except Exception:
            return False
    if kind.startswith("class:"):
        return isinstance(v, ClassRef) and v.cls.name == kind[6:]
    if kind == "tuple:":
        return isinstance(v, tuple) and not v
    if kind.startswith("tuple:"):
        ks = kind[6:].split(",")
        return isinstance(v, tuple) and len(v) == len(ks) and all(value_matches_kind(eng, x, k) for x, k in zip(v, ks))
    if kind == "slice":
        return isinstance(v, SV) and v.t == "slice"
    if kind == "rid":
        return isinstance(v, SV) and v.t == "rid"
    if kind == "keyset":
        from .values import AbstractKeySet
        return isinstance(v, AbstractKeySet)
    if kind.startswith("sol:"):
        from . import solth as SO
        return isinstance(v, SO.SolVal) and v.view is None and v.container == kind[4:]
    if kind in ("asgpred", "asgfun"):
        from . import enumth as EN
        return isinstance(v, EN.AbstractFn) and v.kind == ("valid" if kind == "asgpred" else "value")
    return None       # remaining kinds of the list theory: not judged


def is_num_(v):
    import fractions
    return isinstance(v, (int, float, fractions.Fraction))


def shape_covered(eng, c, env):
    """True when some verified instance of the contract has the shape of this call (None: cannot tell)"""
    if not c.instances:
        return None
    unknown = False
    for inst in c.instances:
        ok = True
        for p, kind in inst.items():
            if p not in env:
                continue
            m = value_matches_kind(eng, env[p], kind)
            if m is None:
                unknown = True
            elif not m:
                ok = False
                break
        if ok:
            return True if not unknown else None
    return False


def make_model(eng, clsname, hint, fresh_empty=False):
    cls = eng.db.classes[clsname]
    o = eng.alloc(PObj(cls))
    ver = FO.empty(eng, T.Key, T.Real) if fresh_empty else FO.base(eng, T.Key, T.Real, hint)
    o.store = eng.alloc(DictVal(ver, pyclass=clsname))
    if fresh_empty:
        o.attrs["_degree"] = -1
        o.attrs["_num_binary_variables"] = 0
        o.attrs["_variables"] = eng.alloc(SetVal(z3.K(T.Label, z3.BoolVal(False)), z3.IntVal(0)))
    else:
        deg = eng.fresh("int", hint + "_degree")
        eng.assume(deg.e >= -1)
        o.attrs["_degree"] = deg
        nv = eng.fresh("int", hint + "_nvars")
        eng.assume(nv.e >= 0)
        o.attrs["_num_binary_variables"] = nv
        eng.nfresh += 1
        mem = z3.Const("%s_vars!%d" % (hint, eng.nfresh), z3.ArraySort(T.Label, T.Bool))
        card = z3.Int("%s_varscard!%d" % (hint, eng.nfresh))
        eng.facts.add(z3.And(card >= 0, card == T.CARD(mem)))
        o.attrs["_variables"] = eng.alloc(SetVal(mem, card))
    o.attrs["_name"] = None
    if eng.db.is_subclass(cls, "BO"):
        if fresh_empty:
            o.attrs["_mapping"] = eng.alloc(DictVal(FO.empty(eng, T.Label, T.Int)))
            o.attrs["_reverse_mapping"] = eng.alloc(DictVal(FO.empty(eng, T.Int, T.Label)))
            o.attrs["_next_label"] = 0
        else:
            o.attrs["_mapping"] = eng.alloc(DictVal(FO.base(eng, T.Label, T.Int, hint + "_map")))
            o.attrs["_reverse_mapping"] = eng.alloc(DictVal(FO.base(eng, T.Int, T.Label, hint + "_rmap")))
            nl = eng.fresh("int", hint + "_next")
            eng.assume(nl.e >= 0)
            o.attrs["_next_label"] = nl
    if eng.db.is_subclass(cls, "PCBO") or eng.db.is_subclass(cls, "PCSO"):
        anc = 0 if fresh_empty else eng.fresh("int", hint + "_anc")
        if not fresh_empty:
            eng.assume(anc.e >= 0)
        o.attrs["_ancilla"] = anc
        o.attrs["_constraints"] = {}
    return o


def make_result(eng, kind, env, hint="result"):
    if kind is None or kind == "none":
        return None
    if kind.startswith("param:"):
        return env[kind[6:]]
    if kind.startswith("fresh:model:"):
        return make_model(eng, kind.split(":", 2)[2], hint)
    if kind == "fresh:results":
        return make_param(eng, "results", hint)
    if kind in ("bfresult", "bfsolution"):
        # (objective, solution) of a brute-force solver: the shape depends on all_solutions and on whether anything
        # was valid / the model was constant; the path forks over the shapes and the postconditions select
        from . import enumth as EN
        alls = eng.tobool(env["all_solutions"])
        alls = alls if isinstance(alls, bool) else eng.branch(alls)
        eng.nfresh += 1
        which = z3.Int("%s_shape!%d" % (hint, eng.nfresh))
        empty = lambda: eng.alloc(DictVal(FO.empty(eng, T.Key, T.Real)))
        from .values import ListVal
        if eng.branch(which == 0):          # nothing valid
            r = (None, eng.alloc(ListVal([])) if alls else empty())
        elif eng.branch(which == 1):        # constant model
            r = (eng.fresh("real", hint + "_objective"), eng.alloc(ListVal([empty()])) if alls else empty())
        else:
            eng.nfresh += 1
            sol = SV(z3.Const("%s_list!%d" % (hint, eng.nfresh), EN.CntSort), "asglist") if alls else EN.fresh_asg(eng, hint + "_solution")
            r = (eng.fresh("real", hint + "_objective"), sol)
        return r if kind == "bfresult" else r[1]
    return make_param(eng, kind, hint)


# ------------------------------------------------------------------------------------------- application at a call
def _apply_contract(eng, c, env, cl):
    qn = c.qualname
    cl_self = None
    caller = eng.call_stack[-1] if eng.call_stack else (eng.target.qualname if eng.target else "?")
    inst_kind = None
    for inst in c.instances:
        for p, kind in inst.items():
            if kind in ("asgpred", "asgfun") and p in env:
                from . import enumth as EN
                a = EN.as_abstract(eng, env[p], "valid" if kind == "asgpred" else "value")
                if a is not None:
                    env[p] = a
    fr = Frame(cl, dict(env))
    if not c.trusted and shape_covered(eng, c, env) is False:
        # the contract was discharged for the parameter shapes listed in its `instances` only
        if os.environ.get("QVC_SHAPE_AUDIT"):
            with open(os.environ["QVC_SHAPE_AUDIT"], "a") as f:
                f.write("%s -> %s : %s\n" % (caller, qn, {k: _describe(v) for k, v in env.items()}))
        else:
            raise Unsupported("call of %s with an argument shape outside the instances its contract was verified for: %s"
                              % (qn, {k: _describe(v) for k, v in env.items()}))
    snap = eng.snapshot(list(env.values()))
    for i, r in enumerate(c.requires):
        eng.oblige("%s/pre@call:%s#%d" % (caller, qn, i), eng.spec_bool(r, env, fr))
    for exc, cond in c.raises:
        if eng.branch(eng.spec_bool(cond, env, fr)):
            raise PyExc(exc)
    # effects are evaluated in the pre-state
    effs = []
    for target, expr in c.effects:
        effs.append((target, eng.eval_spec(expr, env, fr)))
    for name in c.modifies:
        _havoc_path(eng, env, name)
    post_env = dict(env)
    kind = c.returns(env, eng) if callable(c.returns) else c.returns
    result = None
    for target, val in effs:
        if target == "result":
            result = val
        else:
            _assign_effect(eng, target, val, env)
    if not any(t == "result" for t, _ in effs):
        result = make_result(eng, kind, env)
    post_env["result"] = result
    # the callee may have warned "cannot be satisfied": a fresh symbolic flag, visible to the caller's own contract
    eng.nfresh += 1
    w = z3.Bool("callee_warned_unsat!%d" % eng.nfresh)
    if not hasattr(eng, "apply_w_stack") or eng.apply_w_stack is None:
        eng.apply_w_stack = []
    eng.apply_w_stack.append(w)
    try:
        for e in c.ensures:
            if not _wanted(eng, e):
                continue          # a quantified invariant the function under verification does not talk about
            eng.assume(_ens(eng, e, post_env, fr, snap))
        ghost_free_pre = not any(t in r for r in c.requires for t in ("den(", "den_as(", "bden(", "sden(", "opden", "all01", "andf", "orf", "xorf"))
        if "a" in eng.facts.ghosts and ghost_free_pre and \
           any(t in e for e in c.ensures for t in ("den(", "den_as(", "bden(", "sden(")):
            # the contract was proved for an arbitrary assignment: it also holds at the second ghost assignment
            eng.ghost = "a"
            try:
                for e in c.ensures:
                    if any(t in e for t in ("den(", "den_as(", "bden(", "sden(", "mono_as(")) and \
                       not any(t in e for t in ("opden", "andf", "orf", "xorf", "slackval", "xv(", "zv(", "isint", "old(bden", "old(den")):
                        eng.assume(_ens(eng, e, post_env, fr, snap))
            finally:
                eng.ghost = "x"
        # ensures that mention the ghost bound gn() were proved for every value of it: assume them for every bound
        # the caller has in play (its own ghost bound was covered by the plain evaluation above)
        gens = [e for e in c.ensures if "gn()" in e]
        if gens:
            # the ancilla counters of the objects in sight are bounds the caller will want
            for o in list(env.values()) + ([cl_self] if cl_self is not None else []):
                if isinstance(o, PObj) and "_ancilla" in o.attrs:
                    t = zint(eng.get_attr_raw(o, "_ancilla"))
                    if not any(t.eq(x) for x in eng.gn_terms):
                        eng.gn_terms.append(t)
            for t in list(eng.gn_terms):
                if eng._gn_const is not None and t.eq(eng._gn_const):
                    continue
                eng.gn_override = t
                try:
                    for e in gens:
                        f = _ens(eng, e, post_env, fr, snap)
                        f = z3.BoolVal(f) if isinstance(f, bool) else f
                        eng.assume(z3.Implies(t >= 0, f))
                finally:
                    eng.gn_override = None
    finally:
        eng.apply_w_stack.pop()
    if any("warned_unsat" in e for e in c.ensures):
        eng.warned.append(SV(w, "bool"))
    return result


LAZY_TOKENS = ("mapinv(",)


def _wanted(eng, ens):
    """post-conditions about the quantified mapping invariant are assumed at a call site only when the function
    under verification itself states something about it (dropping an assumption is always sound; it keeps the
    quantifiers out of the thousands of proofs that do not need them)"""
    toks = [t for t in LAZY_TOKENS if t in ens]
    if not toks:
        return True
    tgt = eng.target
    if tgt is None:
        return True
    text = getattr(tgt, "_alltext", None)
    if text is None:
        parts = list(tgt.requires) + list(tgt.ensures) + [str(l.get("invariant", "")) for l in (tgt.loops or {}).values()]
        text = tgt._alltext = " ".join(parts)
    return any(t in text for t in toks)


def _describe(v):
    if isinstance(v, PObj):
        return "model:" + v.cls.name
    if isinstance(v, DictVal):
        return "dict"
    if isinstance(v, SV):
        return v.t
    if isinstance(v, tuple):
        return "(" + ",".join(_describe(x) for x in v) + ")"
    return type(v).__name__ if not isinstance(v, (int, float, str, bool, type(None))) else repr(v)


def _ens(eng, src, env, fr, snap):
    eng.entry_snapshot_stack.append(snap)
    try:
        v = eng.eval_spec(src, env, fr)
    finally:
        eng.entry_snapshot_stack.pop()
    return _to_bool(eng, v)


def _to_bool(eng, v):
    t = eng.tobool(v)
    return z3.BoolVal(t) if isinstance(t, bool) else t


def _assign_effect(eng, target, val, env):
    node = ast.parse(target, mode="eval").body
    if isinstance(node, ast.Call) and isinstance(node.func, ast.Name) and node.func.id == "store":
        o = env[node.args[0].id]
        holder = o.store if isinstance(o, PObj) else o
        if not isinstance(val, Ver):
            raise VerifBug("store effect needs a version")
        eng.write_store(holder, val)
        return
    if isinstance(node, ast.Attribute) and isinstance(node.value, ast.Name):
        eng.write_attr(env[node.value.id], node.attr, val)
        return
    raise VerifBug("effect target %s" % target)


def _havoc_path(eng, env, path):
    parts = path.split(".")
    o = env.get(parts[0])
    if o is None:
        return
    if len(parts) == 1:
        eng.havoc_object(o, parts[0])
        return
    for a in parts[1:-1]:
        o = o.attrs[a]
    a = parts[-1]
    if a == "<store>":
        if getattr(o, "store", None) is not None:
            eng.havoc_object(o.store, parts[0] + "_store")
        return
    if a not in o.attrs:
        return
    v = o.attrs[a]
    if isinstance(v, (DictVal, SetVal, PObj)):
        eng.havoc_object(v, path.replace(".", "_"))
    elif v is None or isinstance(v, str):
        from .values import Opaque
        eng.write_attr(o, a, Opaque("havocked " + path))
    else:
        eng.write_attr(o, a, eng.havoc_value(v, path.replace(".", "_")))


def _path_keys(eng, env, path):
    parts = path.split(".")
    o = env.get(parts[0])
    if o is None:
        return set()
    if len(parts) == 1:
        return set(eng.snapshot([o]).keys())
    for a in parts[1:-1]:
        o = o.attrs[a]
    a = parts[-1]
    if a == "<store>":
        return {id(o.store)} if getattr(o, "store", None) is not None else set()
    keys = {(id(o), a)}
    if a in o.attrs:
        keys |= set(eng.snapshot([o.attrs[a]]).keys())
    return keys


def _apply_gen_contract(eng, c, env, cl):
    """a generator call by contract: an abstract finite sequence described by its fold"""
    from .values import SeqIter
    caller = eng.call_stack[-1] if eng.call_stack else (eng.target.qualname if eng.target else "?")
    fr = Frame(cl, dict(env))
    for i, r in enumerate(c.requires):
        eng.oblige("%s/pre@call:%s#%d" % (caller, c.qualname, i), eng.spec_bool(r, env, fr))
    if c.decreases and eng.target is not None and eng.target.qualname == c.qualname:
        # recursive call inside the generator under verification: the measure must strictly decrease
        cur = eng.gen_state
        if cur is not None:
            new = eng.eval_spec(c.decreases, env, fr)
            oldm = eng.eval_spec(c.decreases, cur["env"], cur["frame"])
            eng.oblige("%s/decreases" % c.qualname, z3.And(zint(new) < zint(oldm), zint(new) >= 0))
    return SeqIter("gen", {"contract": c, "env": dict(env), "closure": cl})


Engine.apply_gen_contract = lambda self, c, env, cl: _apply_gen_contract(self, c, env, cl)
Engine.apply_contract = lambda self, c, env, cl: _apply_contract(self, c, env, cl)


def _apply_ctor_contract(eng, c, obj, args, kwargs):
    raise Unsupported("constructor contracts not implemented")


Engine.apply_ctor_contract = lambda self, c, obj, args, kwargs: _apply_ctor_contract(self, c, obj, args, kwargs)


def _comp_spec(eng, fr, ordinal=None):
    c = eng.frame_contract(fr)
    if c is None:
        return None
    if ordinal is None:
        return c.comps or None
    return c.comps.get(ordinal)


Engine.comp_spec = _comp_spec


# ------------------------------------------------------------------------------------------- verification
def verify_instance(db, contracts, c, inst_index, max_paths=400, time_budget=120, start=None, split_at=None, tag=""):
    """Verify the body of c's function against c for one parameter instance. Returns a result dict.
    start: decision prefixes to explore (default: the whole function); split_at: stop as soon as that many
    unexplored prefixes are pending and hand them back in res["pending"] (they are then explored by other
    processes - the subtrees of the path tree are independent); tag: makes the path numbers of a part unique."""
    inst = c.instances[inst_index]
    max_paths = c.budget.get("paths", max_paths)
    time_budget = c.budget.get("time", time_budget)
    eng = Engine(db, contracts, target=c)
    modname, fpath = c.module, c.funcpath
    fd = db.lookup(modname, fpath)
    res = {"qualname": c.qualname, "instance": inst, "obligations": [], "status": "ok", "paths": 0,
           "inlined": [], "used_contracts": [], "lemmas": [], "unsupported": None}
    if fd is None and c.inherited is not None and "." in fpath and fpath.split(".")[0] in db.classes:
        # API-completeness obligation: the class does not define this mutator, so the base-class behaviour is what
        # users get; it is verified against the contract through the trusted specification of the base method
        params = ", ".join(["self"] + list(c.inherited))
        src = "def %s(%s):\n    return super().%s(%s)\n" % (fpath.split(".")[1], params, fpath.split(".")[1], ", ".join(c.inherited))
        fd = ast.parse(src).body[0]
        res["synthesized"] = "inherited from the base class (not defined in %s)" % fpath.split(".")[0]
    if fd is None:
        res["status"] = "missing"
        res["unsupported"] = "function not found in current source"
        return res
    cls = None
    if "." in fpath and ".<locals>." not in fpath:
        cls = db.classes.get(fpath.split(".")[0])
    cl = Closure(fd, None, modname, cls, name=(fpath if ".<locals>." in fpath else None))
    if ".<locals>." in fpath:
        # a nested function may refer to itself through the enclosing scope
        cl.env = Frame(None, {fd.name: cl})
    stack = [list(p) for p in start] if start else [[]]
    t0 = time.time()
    lemmas = set()
    while stack:
        if split_at and eng.stats["paths"] >= 2 and len(stack) >= split_at:
            res["pending"] = stack
            break
        prefix = stack.pop()
        if eng.stats["paths"] >= max_paths or time.time() - t0 > time_budget:
            res["status"] = "unsupported"
            res["unsupported"] = "path/time budget exceeded (%d paths)" % eng.stats["paths"]
            break
        eng.reset_path(prefix)
        eng.entry_snapshot_stack = []
        eng.stats["paths"] += 1
        try:
            _run_path(eng, c, cl, inst, cls)
        except PathInfeasible:
            pass
        except Unsupported as u:
            res["status"] = "unsupported"
            res["unsupported"] = str(u)
            break
        except z3.Z3Exception as ze:
            res["status"] = "unsupported"
            res["unsupported"] = "z3 exception: %s" % ze
            break
        finally:
            lemmas |= eng.facts.used
        for p in eng.pending:
            stack.append(p)
    res["paths"] = eng.stats["paths"]
    if tag:
        for o in eng.results:
            o["name"] = re.sub(r"#p(\d+)$", "#p%s_\\1" % tag, o["name"])
    res["obligations"] = eng.results
    res["inlined"] = sorted(eng.inlined)
    res["used_contracts"] = sorted(eng.used_contracts)
    res["lemmas"] = sorted(lemmas)
    res["loopsigs"] = eng.seen_loopsigs
    res["solver_time"] = round(eng.stats["solver_time"], 3)
    res["solver_calls"] = eng.stats["solver_calls"]
    res["vacuity"] = eng.stats["vacuity"]
    res["vacuous_paths"] = eng.stats.get("vacuous_paths", 0)
    res["bogus_sat"] = eng.stats.get("bogus_sat", 0)
    res["wall_s"] = round(time.time() - t0, 3)
    return res


def _run_path(eng, c, cl, inst, cls):
    fd = cl.fdef
    a = fd.args
    params = [p.arg for p in a.posonlyargs + a.args] + [p.arg for p in a.kwonlyargs]
    env = {}
    for p in params:
        if p in inst:
            env[p] = make_param(eng, inst[p], p)
    if a.vararg is not None and a.vararg.arg in inst:
        env[a.vararg.arg] = make_param(eng, inst[a.vararg.arg], a.vararg.arg)
    if a.kwarg is not None and a.kwarg.arg in inst:
        env[a.kwarg.arg] = make_param(eng, inst[a.kwarg.arg], a.kwarg.arg)
    # defaults for parameters the instance does not mention
    dframe = Frame(cl, {})
    defaults = a.defaults
    pos = [p.arg for p in a.posonlyargs + a.args]
    for p, d in zip(pos[len(pos) - len(defaults):] if defaults else [], defaults):
        if p not in env:
            env[p] = eng.eval(d, dframe)
    for p, d in zip([x.arg for x in a.kwonlyargs], a.kw_defaults):
        if p not in env and d is not None:
            env[p] = eng.eval(d, dframe)
    for p in params:
        if p not in env:
            raise Unsupported("instance gives no kind for parameter %s" % p)
    self_obj = env.get("self") if isinstance(env.get("self"), PObj) else None
    for tn in c.taint:
        tv = env.get(tn)
        if isinstance(tv, SV) and z3.is_const(tv.e):
            eng.taint.add(tv.e.decl().name())
    fr0 = Frame(cl, dict(env), self_obj, cls)
    snap = eng.snapshot(list(env.values()))
    eng.entry_alloc = getattr(eng, "nalloc", 0)
    eng.entry_snapshot_stack.append(snap)
    for r in c.requires:
        eng.assume(eng.spec_bool(r, env, fr0))
    # vacuity guard: the precondition (with the lemma instances) must be satisfiable
    eng.stats["vacuity"] += 1
    if not eng.feasible(z3.BoolVal(True)):
        raise VerifBug("vacuous precondition for %s" % c.qualname)
    qn = c.qualname
    frame = Frame(cl, dict(env), self_obj, cls)
    raised = None
    result = None
    if c.gen is not None:
        eng.gen_state = {"contract": c, "env": dict(env), "frame": fr0, "yielded": 0, "topframe": frame}
        frame.locals["yielded"] = 0
    eng.call_stack.append(qn)
    try:
        eng.exec_block(fd.body, frame)
    except _Return as r:
        result = r.value
    except PyExc as e:
        raised = e
    finally:
        eng.call_stack.pop()
    if c.taint:
        # C16: on this path the weight was used only in ring operations and zero tests, so the path taken and the
        # polynomial form of every coefficient do not depend on its value
        eng.oblige("%s/noninterference" % qn, not eng.taint_hits,
                   note="; ".join(sorted(set(eng.taint_hits))[:5]) or "weight used only in +,-,*,/ and zero tests")
    if raised is not None and raised.name in c.may_raise:
        eng.oblige("%s/may_raise:%s" % (qn, raised.name), True)
        return
    if raised is not None:
        conds = [eng.spec_bool(cond, env, fr0) for exc, cond in c.raises if exc == raised.name]
        goal = z3.Or(*conds) if conds else z3.BoolVal(False)
        eng.oblige("%s/raises:%s" % (qn, raised.name), goal, note="path raises %s %s" % (raised.name, raised.msg))
        return
    for exc, cond in c.raises:
        eng.oblige("%s/noraise:%s" % (qn, exc), z3.Not(eng.spec_bool(cond, env, fr0)),
                   note="returned normally although the contract says it raises")
    post_env = dict(env)
    post_env["result"] = result
    eng._final_locals = dict(frame.locals)        # ghost access to the locals at the return point: final('name')
    if c.gen is not None:
        total = eng.eval_spec(c.gen["total"], env, fr0)
        eng.oblige("%s/yield.total" % qn, _to_bool(eng, SV(zreal(eng.gen_state["yielded"]) == zreal(total), "bool")))
    covered = set()
    for i, (target, expr) in enumerate(c.effects):
        eng.old = snap
        try:
            want = eng.eval_spec(expr, env, fr0)
        finally:
            eng.old = None
        if target == "result":
            got = result
        else:
            got, cov = _read_effect_target(eng, target, env)
            covered |= cov
        eng.oblige("%s/effect:%s" % (qn, target), _to_bool(eng, SV(_eq(eng, got, want), "bool")))
    for i, e in enumerate(c.ensures):
        eng.oblige("%s/post#%d" % (qn, i), _to_bool(eng, eng.eval_spec(e, post_env, fr0)), note=e)
    # frame: everything reachable from the parameters that is neither an effect target nor in modifies is unchanged
    modified_ok = set()
    for name in c.modifies:
        modified_ok |= _path_keys(eng, env, name)
    fgoal = []
    for key, oldv in snap.items():
        if key in covered or key in modified_ok:
            continue
        cur = _current_of(eng, key, env)
        if cur is None:
            continue
        same = _unchanged(eng, cur, oldv)
        if same is not True:
            fgoal.append(same)
    if fgoal and os.environ.get("QVC_FRAME_DEBUG"):
        for key, oldv in snap.items():
            if key in covered or key in modified_ok:
                continue
            cur = _current_of(eng, key, env)
            if cur is None:
                continue
            same = _unchanged(eng, cur, oldv)
            if same is not True:
                kd = (type(eng._objs.get(key)).__name__ + ":" + str(same)[:300]) if not isinstance(key, tuple) else (type(eng._objs.get(key[0])).__name__, key[1])
                eng.oblige("%s/frame.%s" % (qn, kd), same, note=str(kd))
    if fgoal:
        eng.oblige("%s/frame" % qn, z3.And(*fgoal), note="arguments not named in effects/modifies are unchanged")
    else:
        eng.oblige("%s/frame" % qn, True)


def _eq(eng, got, want):
    if isinstance(want, Ver) or isinstance(got, Ver):
        a, b = eng.store_of(got), eng.store_of(want)
        return z3.And(a.dom == b.dom, a.val == b.val)
    if isinstance(got, tuple) and isinstance(want, tuple) and len(got) == len(want):
        return z3.And(*[_eq(eng, g, w) for g, w in zip(got, want)])
    r = eng.equals(got, want)
    return z3.BoolVal(r) if isinstance(r, bool) else r


_obj_index = {}


def _read_effect_target(eng, target, env):
    node = ast.parse(target, mode="eval").body
    if isinstance(node, ast.Call) and isinstance(node.func, ast.Name) and node.func.id == "store":
        o = env[node.args[0].id]
        holder = o.store if isinstance(o, PObj) else o
        return holder.ver, {id(holder)}
    if isinstance(node, ast.Attribute) and isinstance(node.value, ast.Name):
        o = env[node.value.id]
        return o.attrs[node.attr], {(id(o), node.attr)}
    raise VerifBug("effect target %s" % target)


def _current_of(eng, key, env):
    """current value for a snapshot key"""
    # search reachable objects
    found = {}

    def visit(v, seen):
        if id(v) in seen:
            return
        if isinstance(v, DictVal):
            seen.add(id(v))
            found[id(v)] = v.ver
        elif isinstance(v, PObj):
            seen.add(id(v))
            for a, val in v.attrs.items():
                found[(id(v), a)] = val
                visit(val, seen)
            if v.store is not None:
                visit(v.store, seen)
            if getattr(v, "lstore", None) is not None:
                visit(v.lstore, seen)
        elif isinstance(v, SetVal):
            seen.add(id(v))
            found[id(v)] = (v.mem, v.card)
        elif type(v).__name__ == "LHolder":
            seen.add(id(v))
            found[id(v)] = v.ver
        elif isinstance(v, ListVal):
            seen.add(id(v))
            found[id(v)] = list(v.items)
        elif isinstance(v, (tuple, list)):
            for it in v:
                visit(it, seen)
    seen = set()
    for v in env.values():
        visit(v, seen)
    return found.get(key)


def _unchanged(eng, cur, oldv):
    if cur is oldv:
        return True
    if type(cur).__name__ == "LVer" and type(oldv).__name__ == "LVer":
        return z3.And(cur.cnt == oldv.cnt, cur.length == oldv.length)
    if type(cur).__name__ == "OptRid" and type(oldv).__name__ == "OptRid":
        return z3.And(cur.isnone == oldv.isnone, z3.Implies(z3.Not(cur.isnone), cur.rid == oldv.rid))
    if isinstance(cur, Ver) and isinstance(oldv, Ver):
        return z3.And(cur.dom == oldv.dom, cur.val == oldv.val)
    if isinstance(cur, tuple) and isinstance(oldv, tuple) and len(cur) == 2 and z3.is_expr(cur[0]):
        return z3.And(cur[0] == oldv[0], cur[1] == oldv[1])
    if isinstance(cur, list) and isinstance(oldv, list):
        if len(cur) != len(oldv):
            return z3.BoolVal(False)
        parts = [_unchanged(eng, a, b) for a, b in zip(cur, oldv)]
        parts = [p for p in parts if p is not True]
        return z3.And(*parts) if parts else True
    if isinstance(cur, (DictVal, PObj, SetVal, ListVal)) or isinstance(oldv, (DictVal, PObj, SetVal, ListVal)):
        return True if cur is oldv else z3.BoolVal(False)
    try:
        r = eng.equals(cur, oldv)
    except Unsupported:
        return True if cur is oldv else z3.BoolVal(False)
    if isinstance(r, bool):
        return True if r else z3.BoolVal(False)
    return r
