"""Path-wise symbolic interpreter for the Python subset used by the anchored functions of qubovert.

* re-execution with a decision prefix (DFS over feasible paths)
* callee contracts at call sites (functions without a contract are executed by their real body: "inlined")
* loops over symbolic collections are cut at invariants given in the sidecar contract
* every fact added to the solver context is a quantifier-free lemma instance (theory.Facts)
"""
import ast
import os
import re
import fractions
import time

import z3

from . import theory as T
from .values import (SV, Ver, DictVal, SetVal, ListVal, PObj, ItemsView, Assoc, AssignVal, Closure, BoundMethod, ClassRef,
                     BuiltinClass, Builtin, ModuleRef, SuperRef, SeqIter, Unsupported, PathInfeasible, VerifBug,
                     PyExc, is_num, zreal, zint, is_intlike, Opaque, StarKey)
from . import folds as FO
from . import lists as LS
from . import enumth as EN
from . import solth as SO
from .values import OpaqueTable, AbstractKeySet


_ARITH_KINDS = None


def _arith_abstraction(formulas):
    """see Engine._portfolio (a)"""
    global _ARITH_KINDS
    if _ARITH_KINDS is None:
        _ARITH_KINDS = {z3.Z3_OP_AND, z3.Z3_OP_OR, z3.Z3_OP_NOT, z3.Z3_OP_IMPLIES, z3.Z3_OP_ITE, z3.Z3_OP_TRUE, z3.Z3_OP_FALSE,
                        z3.Z3_OP_EQ, z3.Z3_OP_DISTINCT, z3.Z3_OP_XOR, z3.Z3_OP_IFF if hasattr(z3, "Z3_OP_IFF") else z3.Z3_OP_EQ,
                        z3.Z3_OP_LE, z3.Z3_OP_GE, z3.Z3_OP_LT, z3.Z3_OP_GT, z3.Z3_OP_ADD, z3.Z3_OP_SUB, z3.Z3_OP_UMINUS,
                        z3.Z3_OP_MUL, z3.Z3_OP_DIV, z3.Z3_OP_IDIV, z3.Z3_OP_MOD, z3.Z3_OP_REM, z3.Z3_OP_TO_REAL,
                        z3.Z3_OP_TO_INT, z3.Z3_OP_IS_INT, z3.Z3_OP_ANUM, z3.Z3_OP_POWER}
    cache, fresh = {}, {}

    def scalar(sort):
        return sort.kind() in (z3.Z3_BOOL_SORT, z3.Z3_INT_SORT, z3.Z3_REAL_SORT)

    def atom(t):
        k = t.get_id()
        if k not in fresh:
            fresh[k] = z3.Const("abs!%d" % len(fresh), t.sort())
        return fresh[k]

    def walk(t):
        k = t.get_id()
        if k in cache:
            return cache[k]
        if z3.is_quantifier(t) or not z3.is_app(t):
            r = atom(t) if scalar(t.sort()) else None
        elif not scalar(t.sort()):
            r = None
        elif z3.is_int_value(t) or z3.is_rational_value(t) or z3.is_algebraic_value(t):
            r = t
        elif t.num_args() == 0:
            r = t                                    # scalar constant
        elif t.decl().kind() in _ARITH_KINDS:
            kids = [walk(c) for c in t.children()]
            if any(c is None for c in kids):         # (in)equality between arrays / sequences
                r = atom(t)
            else:
                r = t.decl()(*kids)
        else:
            r = atom(t)                              # select, seq.len, uninterpreted function, ...
        cache[k] = r
        return r
    out = []
    for f in formulas:
        r = walk(f)
        if r is not None:
            out.append(r)
    return out


DICT_ATTRS = {"items", "keys", "values", "get", "pop", "copy", "clear", "setdefault", "update", "popitem", "fromkeys",
              "__getitem__", "__setitem__", "__delitem__", "__contains__", "__len__", "__iter__", "__class__"}


class _Return(Exception):
    def __init__(self, value):
        self.value = value


class _Break(Exception):
    pass


class _Continue(Exception):
    pass


class Frame:
    def __init__(self, closure, locals_, self_obj=None, defining_cls=None):
        self.closure, self.locals, self.self_obj, self.defining_cls = closure, locals_, self_obj, defining_cls
        self.loop_ordinal = 0
        self.comp_ordinal = 0


PURE_METHODS = {"get", "items", "keys", "values", "copy", "count", "value", "is_solution_valid", "index"}

# QVC_PATIENT=1: second attempt of an instance whose obligations were left open (never refuted) - the same queries
# with four times the budgets, run alone on the machine (driver.run_property); a verdict never gets worse by it
class _Patient:
    """multiplier of every solver budget; read from the environment at use (worker processes are forked)"""

    def __rmul__(self, other):
        return other * (4 if os.environ.get("QVC_PATIENT") else 1)

    __mul__ = __rmul__


PATIENT = _Patient()
RLIMIT = 3_000_000


def _load_loopsigs():
    import json
    from .. import VERIF
    try:
        return json.load(open(os.path.join(VERIF, "contracts", "loopsigs.json")))
    except Exception:
        return {}


class Engine:
    def __init__(self, db, contracts, target=None):
        self.db = db
        self.contracts = contracts          # qualname -> Contract
        self.target = target                # Contract under verification (its own body is executed, not its contract)
        self.results = []                   # obligation results over all paths
        self.stats = {"paths": 0, "solver_calls": 0, "solver_time": 0.0, "vacuity": 0}
        self.inlined = set()
        self.used_contracts = set()
        self.seen_loopsigs = {}
        self.loopsigs = _load_loopsigs()

    # ------------------------------------------------------------------ path machinery
    def reset_path(self, prefix):
        self.solver = z3.Solver()
        self.solver.set("rlimit", RLIMIT * PATIENT)
        self.solver.set("timeout", 20000 * PATIENT)      # wall-clock safety net only; the resource limit decides
        self.facts = T.Facts()
        self._nfacts_pushed = 0
        self._aids, self._aterms, self._akey = [], [], b""
        self.gn_terms, self._gn_const, self.gn_override = [], None, None
        self.pc = []
        self.prefix = list(prefix)
        self.trace = []
        self.pending = []
        self.nfresh = 0
        self.warned = []
        self.old = None
        self.spec = 0
        self.depth = 0
        self.call_stack = []
        self.frame_writes = None
        self.store_eqs = []
        self.maxabs_reg = None
        self.wit_reg = None
        self.cons_reg = None
        self.quantified = False
        self.taint = set()          # names of z3 constants standing for a symbolic weight (C16 non-interference)
        self.taint_hits = []
        self._taint_cache = {}
        self.ghost = "x"
        self.apply_w_stack = []
        self.loop_pre = []
        self._lists = None
        self.gen_state = None
        self._objs = {}
        self.nalloc = 0
        Ver._n = 0
        PObj._n = 0

    def fresh(self, t, hint="v"):
        self.nfresh += 1
        name = "%s!%d" % (hint, self.nfresh)
        if t == "real":
            return SV(z3.Real(name), "real")
        if t == "int":
            return SV(z3.Int(name), "int")
        if t == "bool":
            return SV(z3.Bool(name), "bool")
        if t == "label":
            e = z3.Int(name)
            self.facts.label(e)
            return SV(e, "label")
        if t == "key":
            e = z3.Const(name, T.Key)
            self.facts.key(e)
            return SV(e, "key")
        raise VerifBug("fresh " + t)

    def _sync(self):
        fs = self.facts.facts
        if getattr(self.facts, "intp_active", False):
            # closure of integrality over the equations of the path condition (see theory.Facts.intp)
            self.facts.intp_scan(list(self.solver.assertions()))       # formulas seen before are skipped by id
            done = self._nfacts_pushed
            while done < len(fs):
                m = len(fs)
                self.facts.intp_scan(fs[done:m])
                done = m
        while self._nfacts_pushed < len(fs):
            self._solver_add(fs[self._nfacts_pushed])
            self._nfacts_pushed += 1

    def _solver_add(self, f):
        """every formula asserted on the path goes through here: the running digest of their term ids is the key of
        the query cache"""
        self.solver.add(f)
        import hashlib
        i = f.get_id()
        self._aids.append(i)
        self._aterms.append(f)
        self._akey = hashlib.blake2b(self._akey + i.to_bytes(8, "little", signed=True), digest_size=16).digest()

    def assume(self, f):
        if isinstance(f, bool):
            if not f:
                raise PathInfeasible()
            return
        self.pc.append(f)
        self._solver_add(f)

    def _check(self, *extra, portfolio=False):
        self._sync()
        t0 = time.time()
        # paths are explored by re-execution: the queries of the common prefix recur verbatim (terms are hash-consed,
        # fresh names are numbered per path), so their answers are remembered for the function under verification
        cache = getattr(self, "_qcache", None)
        if cache is None:
            cache = self._qcache = {}
            self._qkeep = []
        try:
            key = (self._akey, len(self._aids), tuple(e.get_id() for e in extra), bool(portfolio))
        except Exception:
            key = None
        if key is not None and key in cache:
            r_c, backend = cache[key]
            self.last_backend = backend
            self.stats["cache_hits"] = self.stats.get("cache_hits", 0) + 1
            return r_c, None
        r, model = self._check_uncached(*extra, portfolio=portfolio)
        if key is not None and (r == z3.unsat or (r == z3.sat and not portfolio)):
            cache[key] = (r, getattr(self, "last_backend", "z3"))
            self._qkeep.append((list(self._aterms), list(extra)))       # keep the terms alive: their ids are the key
        return r, model

    def _check_uncached(self, *extra, portfolio=False):
        t0 = time.time()
        if portfolio and getattr(self, "quantified", False):
            # queries with quantified hypotheses (forall_key invariants, the enumeration theory): the incremental
            # solver either answers at once or spends its whole budget; so: a short incremental attempt, then the
            # arithmetic abstraction (which only forgets facts, so `unsat` carries over - the instances the proofs
            # need are stated explicitly), then the full portfolio below
            try:
                self.solver.push()
                for e in extra:
                    self.solver.add(e)
                self.solver.set("timeout", 1500 * PATIENT)
                r0 = self.solver.check()
                m0 = None
                if r0 == z3.sat:
                    try:
                        m0 = self.solver.model()
                    except z3.Z3Exception:
                        m0 = None
                self.solver.set("timeout", 20000 * PATIENT)
                self.solver.pop()
                if r0 == z3.unsat or (r0 == z3.sat and self._model_ok(m0, extra)):
                    self.last_backend = "z3-" + z3.get_version_string()
                    self.stats["solver_calls"] += 1
                    self.stats["solver_time"] += time.time() - t0
                    return r0, m0
                fs = _arith_abstraction(list(self.solver.assertions()) + list(extra))
                sa = z3.Solver()
                sa.set("timeout", 15000 * PATIENT)
                sa.set("rlimit", 20000000 * PATIENT)
                for f_ in fs:
                    sa.add(f_)
                if sa.check() == z3.unsat:
                    self.last_backend = "z3-%s(arith-abstraction)" % z3.get_version_string()
                    self.stats["solver_calls"] += 1
                    self.stats["solver_time"] += time.time() - t0
                    return z3.unsat, None
            except z3.Z3Exception:
                pass
        if portfolio and getattr(self, "quantified", False) and os.environ.get("QVC_ONESHOT_FIRST"):
            # queries with quantified hypotheses (forall_key invariants, the enumeration theory): the incremental
            # solver is slow and erratic on them while a fresh one-shot solver (full tactic, MBQI) answers at once
            try:
                s1 = z3.Solver()
                s1.set("rlimit", 40_000_000)
                s1.set("timeout", 60000)
                for a_ in self.solver.assertions():
                    s1.add(a_)
                for e in extra:
                    s1.add(e)
                if os.environ.get("QVC_DUMP_DIR"):
                    self._ndump = getattr(self, "_ndump", 0) + 1
                    with open(os.path.join(os.environ["QVC_DUMP_DIR"], "o%d_%d.smt2" % (os.getpid(), self._ndump)), "w") as fdump:
                        fdump.write(s1.to_smt2())
                tq0 = time.time()
                r1 = s1.check()
                if os.environ.get("QVC_DUMP_DIR"):
                    print("one-shot", self._ndump, r1, round(time.time() - tq0, 2))
                if r1 == z3.unsat:
                    self.last_backend = "z3-%s(one-shot)" % z3.get_version_string()
                    self.stats["solver_calls"] += 1
                    self.stats["solver_time"] += time.time() - t0
                    return r1, None
                if r1 == z3.sat:
                    m1 = s1.model()
                    if self._model_ok(m1, extra):
                        self.last_backend = "z3-%s(one-shot)" % z3.get_version_string()
                        self.stats["solver_calls"] += 1
                        self.stats["solver_time"] += time.time() - t0
                        return r1, m1
            except z3.Z3Exception:
                pass
        self.solver.push()
        for e in extra:
            self.solver.add(e)
        quick = (not portfolio) and getattr(self, "quantified", False)
        if quick:
            # feasibility / canary queries under quantified hypotheses: a model may be out of the solver's reach;
            # `unknown` is read as "feasible" by every caller, so a short budget loses nothing but time
            self.solver.set("timeout", 800 * PATIENT)
        r = self.solver.check()
        if quick:
            self.solver.set("timeout", 20000 * PATIENT)
        if os.environ.get("QVC_DUMP_DIR"):
            print("incremental", "portfolio" if portfolio else "plain", r, round(time.time() - t0, 2))
        model = None
        if r == z3.sat:
            try:
                model = self.solver.model()
            except z3.Z3Exception:
                model = None
        self.solver.pop()
        self.last_backend = "z3-" + z3.get_version_string()
        if r == z3.sat and portfolio and not self._model_ok(model, extra):
            # z3 occasionally answers `sat` with a model that does not satisfy the query (is_int / to_int mixed
            # with non-linear terms): such an answer is treated as "no answer"
            r, model = z3.unknown, None
            self.stats["bogus_sat"] = self.stats.get("bogus_sat", 0) + 1
        if r == z3.unknown and portfolio:
            r, model = self._portfolio(extra)
        self.stats["solver_calls"] += 1
        self.stats["solver_time"] += time.time() - t0
        return r, model

    def _model_ok(self, model, extra):
        """does the counter-model really satisfy the path condition, the lemma instances and the negated goal?"""
        if model is None:
            return False
        try:
            for a in list(self.solver.assertions()) + list(extra):
                v = model.eval(a, model_completion=True)
                if not z3.is_true(v):
                    if z3.is_false(v):
                        return False
                    # quantified / non-ground residue: cannot validate, do not reject on that account
                    continue
            return True
        except z3.Z3Exception:
            return False

    def _portfolio(self, extra):
        """second opinions for a query the incremental solver left open: a fresh one-shot z3 solver (different
        strategy), then the z3 4.8 and cvc5 command-line solvers on the SMT-LIB text"""
        # (a) arithmetic abstraction: every maximal subterm that is not arithmetic / propositional (array reads,
        # sequence terms, applications of uninterpreted functions, equalities between arrays or sequences) is
        # replaced by a fresh constant of its sort. The abstraction only forgets facts, so `unsat` carries over.
        # z3 is weak on integrality (is_int / to_int) as soon as arrays or sequences are in the same query; the
        # abstracted query is pure mixed integer-real arithmetic, where it is strong.
        try:
            fs = _arith_abstraction(list(self.solver.assertions()) + list(extra))
            sa = z3.Solver()
            sa.set("timeout", 15000)
            sa.set("rlimit", 20000000)
            for f_ in fs:
                sa.add(f_)
            ta0 = time.time()
            ra = sa.check()
            if os.environ.get("QVC_DUMP_DIR"):
                print("arith-abstraction", ra, round(time.time() - ta0, 2))
            if ra == z3.unsat:
                self.last_backend = "z3-%s(arith-abstraction)" % z3.get_version_string()
                return z3.unsat, None
        except z3.Z3Exception:
            pass
        s = z3.Solver()
        for a_ in self.solver.assertions():
            s.add(a_)
        for e in extra:
            s.add(e)
        import subprocess
        import tempfile
        text = s.to_smt2()
        if os.environ.get("QVC_DUMP_DIR"):
            self._ndump = getattr(self, "_ndump", 0) + 1
            with open(os.path.join(os.environ["QVC_DUMP_DIR"], "q%d_%d.smt2" % (os.getpid(), self._ndump)), "w") as fdump:
                fdump.write(text)
        import shutil
        z3new = shutil.which("z3-new") or "/usr/bin/z3"
        # resource limits (deterministic) decide; the wall-clock limits are only a safety net
        for name, cmd in (("z3-5.1-cli(one-shot)", [z3new, "rlimit=%d" % (25000000 * PATIENT), "-T:%d" % (90 * PATIENT)]),):
            try:
                with tempfile.NamedTemporaryFile("w", suffix=".smt2", delete=True) as f:
                    f.write(text)
                    f.flush()
                    out = subprocess.run(cmd + [f.name], capture_output=True, text=True, timeout=100 * PATIENT).stdout.strip().split("\n")[0]
            except Exception:
                continue
            if out == "unsat":
                self.last_backend = name
                return z3.unsat, None
            if out == "sat":
                # no model to validate: the obligation stays open (never reported as refuted on this basis)
                continue
        return z3.unknown, None

    def feasible(self, f):
        r, _ = self._check(f)
        return r != z3.unsat

    def branch(self, cond):
        """decide a symbolic condition on this path; returns python bool"""
        if isinstance(cond, bool):
            return cond
        if self.spec:
            raise Unsupported("branching inside a specification expression")
        cond = z3.simplify(cond)
        if z3.is_true(cond):
            return True
        if z3.is_false(cond):
            return False
        if self.taint:
            self._taint_branch(cond)
        idx = len(self.trace)
        if idx < len(self.prefix):
            d = self.prefix[idx]
        else:
            ct = self.feasible(cond)
            cf = self.feasible(z3.Not(cond))
            if ct and cf:
                d = True
                self.pending.append(self.trace + [False])
            elif ct:
                d = True
            elif cf:
                d = False
            else:
                raise PathInfeasible()
        self.trace.append(d)
        self.assume(cond if d else z3.Not(cond))
        return d

    def _skolemize(self, g):
        """replace universally quantified sub-goals in positive position by their body at fresh constants (proving
        the instance at an arbitrary fresh key proves the quantified goal); the fresh keys are registered as witness
        keys, so that every quantified hypothesis is instantiated at them explicitly"""
        if z3.is_quantifier(g) and g.is_forall():
            consts = []
            for i in range(g.num_vars()):
                self.nfresh += 1
                c = z3.Const("sk_%s!%d" % (g.var_name(i), self.nfresh), g.var_sort(i))
                consts.append(c)
            body = z3.substitute_vars(g.body(), *reversed(consts))
            for c in consts:
                if c.sort() == T.Key:
                    self.facts.key(c)
                    FO.maxabs_note(self, T.Key, c)
            return self._skolemize(body)
        if z3.is_and(g) or z3.is_or(g):
            ch = [self._skolemize(c) for c in g.children()]
            return z3.And(*ch) if z3.is_and(g) else z3.Or(*ch)
        if z3.is_implies(g):
            return z3.Implies(g.arg(0), self._skolemize(g.arg(1)))
        if z3.is_app(g) and g.decl().kind() == z3.Z3_OP_ITE and g.sort() == z3.BoolSort():
            return z3.If(g.arg(0), self._skolemize(g.arg(1)), self._skolemize(g.arg(2)))
        return g

    def oblige(self, kind, goal, note=""):
        """prove goal under the current path condition; record the result"""
        name = "%s#p%d" % (kind, self.stats["paths"])
        if isinstance(goal, bool):
            st = "discharged" if goal else "refuted"
            self.results.append({"kind": kind, "name": name, "status": st, "note": note, "time_s": 0.0,
                                 "backend": "trivial", "model": None})
            return st == "discharged"
        t0 = time.time()
        pgoal = self._skolemize(goal) if getattr(self, "quantified", False) else goal
        r, model = self._check(z3.Not(pgoal), portfolio=True)
        dt = time.time() - t0
        if r == z3.unsat:
            st = "discharged"
        elif r == z3.sat:
            st = "refuted"
        else:
            st = "open"
        rec = {"kind": kind, "name": name, "status": st, "note": note, "time_s": round(dt, 4), "backend": getattr(self, "last_backend", "z3"),
               "model": None}
        if st != "discharged":
            rec["model"] = self._model_summary(model) if model is not None else None
            rec["smt2"] = self._smt2(z3.Not(goal))
            rec["detail"] = "z3: %s (%s)" % (r, self.solver.reason_unknown() if r == z3.unknown else "counter-model found")
        many_paths = bool(getattr(self.target, "budget", None) and self.target.budget.get("parallel"))
        if st == "discharged" and os.environ.get("QVC_CROSSCHECK") and not isinstance(goal, bool) and \
                not (many_paths and ".init" in kind):
            # thorough tier: an independent back end (z3 4.8.12 command line) must not contradict the verdict
            rec["second_backend"] = self._second_opinion(z3.Not(goal))
        fam = re.sub(r"(\.c\d+|#\d+)$", "", kind)
        seen_fam = getattr(self, "_canary_seen", None)
        if seen_fam is None or seen_fam[0] != self.stats["paths"]:
            seen_fam = self._canary_seen = (self.stats["paths"], set())
        if st == "discharged" and ("/post" in kind or ".step" in kind or "/effect" in kind or ".item" in kind) \
                and fam not in seen_fam[1]:
            seen_fam[1].add(fam)
            # canary / vacuity: the negated goal is refuted, so the goal itself must be satisfiable here
            r2, _ = self._check(goal)
            rec["canary"] = (r2 != z3.unsat)
            if r2 == z3.unsat:
                # the path condition is contradictory (an infeasible branch that the solver first took for feasible):
                # nothing proved on this path counts; the path is dropped and counted
                self.stats["vacuous_paths"] = self.stats.get("vacuous_paths", 0) + 1
                self.results = [x for x in self.results if not x["name"].endswith("#p%d" % self.stats["paths"])]
                raise PathInfeasible()
        self.results.append(rec)
        # continue the path under the assumption that the goal holds (standard assert-then-assume);
        # a goal that failed is not assumed (it could make the rest of the path vacuous)
        if st == "discharged":
            self.assume(goal)
        return st == "discharged"

    def _second_opinion(self, negated_goal):
        import subprocess
        import tempfile
        text = self._smt2(negated_goal)
        try:
            with tempfile.NamedTemporaryFile("w", suffix=".smt2", delete=True) as f:
                f.write(text)
                f.flush()
                out = subprocess.run(["/usr/bin/z3", "rlimit=20000000", "-T:60", f.name], capture_output=True, text=True,
                                     timeout=70).stdout.strip().split("\n")[0]
        except Exception as e:
            return "error: %s" % type(e).__name__
        return "z3-4.8.12: " + (out or "no answer")

    def _smt2(self, negated_goal):
        self._sync()
        s = z3.Solver()
        for a in self.solver.assertions():
            s.add(a)
        s.add(negated_goal)
        return s.to_smt2()

    def _model_summary(self, model):
        out = {}
        try:
            for d in model.decls()[:60]:
                if d.arity() == 0:
                    out[d.name()] = str(model[d])[:80]
        except Exception:
            pass
        return out

    # ------------------------------------------------------------------ helpers on values
    def truth(self, v):
        if v is None:
            return False
        if isinstance(v, bool):
            return v
        if isinstance(v, SV):
            if v.t == "bool":
                return v.e
            if v.t in ("real", "int"):
                return v.e != 0
            if v.t == "key":
                return z3.Length(v.e) != 0
            if v.t == "label":
                raise Unsupported("truthiness of a label")
        if is_num(v):
            return v != 0
        if isinstance(v, (tuple, str, list)):
            return len(v) != 0
        if isinstance(v, ListVal):
            return len(v.items) != 0
        if isinstance(v, DictVal):
            return FO.size_of(self, self.store_of(v)) != 0
        if isinstance(v, PObj):
            if v.store is not None:
                return FO.size_of(self, self.store_of(v)) != 0
            if getattr(v, "lstore", None) is not None:
                return self.lver_of(v).length != 0
            return True
        if isinstance(v, LS.OptRid):
            return z3.Not(v.isnone)
        if isinstance(v, SV) and v.t == "rid":
            return True
        if isinstance(v, SetVal):
            return v.card != 0
        if isinstance(v, AbstractKeySet):
            if getattr(v, "_nonempty", None) is None:
                self.nfresh += 1
                v._nonempty = z3.Bool("keyset_nonempty!%d" % self.nfresh)
            return v._nonempty
        if isinstance(v, (Closure, BoundMethod, ClassRef, Builtin, BuiltinClass)):
            return True
        raise Unsupported("truthiness of %r" % (type(v).__name__,))

    def tobool(self, v):
        """value -> z3 Bool or python bool"""
        return self.truth(v)

    def as_key(self, v):
        """python tuple of labels or SV key -> z3 Seq expr"""
        if isinstance(v, SV) and v.t == "key":
            return v.e
        if isinstance(v, tuple):
            e = None
            for it in v:
                u = self.facts.unit(self.as_label(it))
                e = u if e is None else self.facts.concat(e, u)
            if e is None:
                e = T.empty_key()
                self.facts.key(e)
            return e
        raise Unsupported("key expected, got %r" % (v,))

    def as_label(self, v):
        if isinstance(v, SV) and v.t in ("label", "int"):
            return v.e
        if isinstance(v, int) and not isinstance(v, bool):
            return z3.IntVal(v)
        raise Unsupported("label expected, got %r" % (v,))

    def store_of(self, obj):
        """current (or old, when evaluating old(...)) version of a dict-like value"""
        if isinstance(obj, Ver):
            return obj
        if isinstance(obj, PObj):
            if obj.store is None:
                raise Unsupported("object %r has no dict storage" % obj)
            obj = obj.store
        if isinstance(obj, DictVal):
            if self.old is not None and id(obj) in self.old:
                return self.old[id(obj)]
            return obj.ver
        if isinstance(obj, ItemsView):
            return obj.ver
        raise Unsupported("dict-like expected, got %r" % (obj,))

    def lver_of(self, obj):
        h = obj.lstore if isinstance(obj, PObj) else obj
        if isinstance(h, LS.LVer):
            return h
        if self.old is not None and id(h) in self.old:
            return self.old[id(h)]
        return h.ver

    def write_lstore(self, holder, ver):
        if self.spec:
            raise Unsupported("heap write inside a specification expression")
        if self.frame_writes is not None:
            self.frame_writes.add(id(holder))
        holder.ver = ver

    def get_attr_raw(self, obj, name):
        if self.old is not None and (id(obj), name) in self.old:
            return self.old[(id(obj), name)]
        return obj.attrs[name]

    def snapshot(self, roots):
        """old-state snapshot of every mutable object reachable from roots"""
        snap = {}
        seen = set()

        def visit(v):
            if id(v) in seen:
                return
            if isinstance(v, DictVal):
                seen.add(id(v))
                snap[id(v)] = v.ver
            elif isinstance(v, PObj):
                seen.add(id(v))
                for a, val in v.attrs.items():
                    snap[(id(v), a)] = val
                    visit(val)
                if v.store is not None:
                    visit(v.store)
                if getattr(v, "lstore", None) is not None:
                    visit(v.lstore)
            elif isinstance(v, SetVal):
                seen.add(id(v))
                snap[id(v)] = (v.mem, v.card)
            elif isinstance(v, LS.LHolder):
                seen.add(id(v))
                snap[id(v)] = v.ver
            elif isinstance(v, ListVal):
                seen.add(id(v))
                snap[id(v)] = list(v.items)
                for it in v.items:
                    visit(it)
            elif isinstance(v, (tuple, list)):
                for it in v:
                    visit(it)
        for r in roots:
            visit(r)
        return snap

    # ------------------------------------------------------------------ arithmetic
    def binop(self, op, a, b):
        if isinstance(op, ast.Mod) and isinstance(a, str):
            if a == "__a%d" and is_intlike(b):
                return SV(self.facts.anc_label(zint(b)), "label")
            raise Unsupported("string formatting")
        if isinstance(op, ast.Add):
            if isinstance(a, tuple) and isinstance(b, tuple):
                return a + b
            if (isinstance(a, tuple) or (isinstance(a, SV) and a.t == "key")) and \
               (isinstance(b, tuple) or (isinstance(b, SV) and b.t == "key")):
                return SV(self.facts.concat(self.as_key(a), self.as_key(b)), "key")
            if isinstance(a, str) and isinstance(b, str):
                return a + b
        if isinstance(a, PObj) or isinstance(b, PObj):
            return self.obj_binop(op, a, b)
        if isinstance(op, ast.Mult) and isinstance(a, tuple) and isinstance(b, int):
            return a * b
        if isinstance(op, ast.Mult) and isinstance(a, list) and isinstance(b, int):
            return a * b
        both_py = (is_num(a) or isinstance(a, bool)) and (is_num(b) or isinstance(b, bool))
        if both_py:
            return self._pyarith(op, a, b)
        if isinstance(op, (ast.Add, ast.Sub, ast.Mult)):
            if is_intlike(a) and is_intlike(b):
                x, y = zint(a), zint(b)
                t = "int"
            else:
                x, y = zreal(a), zreal(b)
                t = "real"
            e = x + y if isinstance(op, ast.Add) else (x - y if isinstance(op, ast.Sub) else x * y)
            if isinstance(op, ast.Mult):
                self._square_facts(e, x, y, t)
            return SV(e, t)
        if isinstance(op, ast.Div):
            y = zreal(b)
            if not self.branch_quiet(y != 0):
                raise PyExc("ZeroDivisionError")
            return SV(zreal(a) / y, "real")
        if isinstance(op, (ast.FloorDiv, ast.Mod)):
            if is_intlike(a) and is_intlike(b):
                y = zint(b)
                if not self.branch_quiet(y != 0):
                    raise PyExc("ZeroDivisionError")
                if isinstance(b, int) and b > 0:
                    e = zint(a) / y if isinstance(op, ast.FloorDiv) else zint(a) % y
                    return SV(e, "int")
            raise Unsupported("// or % on non-integers or non-constant divisor")
        if isinstance(op, ast.Pow):
            if isinstance(b, int) and not isinstance(b, bool) and 0 <= b <= 6:
                r = 1
                for _ in range(b):
                    r = self.binop(ast.Mult(), r, a)
                return r
            raise Unsupported("** with symbolic exponent")
        raise Unsupported("binop %s" % type(op).__name__)

    def _square_facts(self, e, x, y, t):
        """x*y where y is x, or x = c*y / y = c*x: facts about the square that nonlinear solvers often do not find"""
        def const(v):
            return z3.is_rational_value(v) or z3.is_int_value(v)

        def factors(v):
            if z3.is_mul(v):
                out = []
                for c in v.children():
                    out.extend(factors(c))
                return out
            return [v]
        if const(x) or const(y):
            return
        sq, rest = None, None
        if x.eq(y):
            sq, base = e, x
        else:
            for a, b in ((x, y), (y, x)):
                fs = factors(a)
                idx = [i for i, f in enumerate(fs) if f.eq(b)]
                if idx and len(fs) > 1:
                    others = fs[:idx[0]] + fs[idx[0] + 1:]
                    rest = others[0]
                    for o in others[1:]:
                        rest = rest * o
                    base, sq = b, b * b
                    break
        if sq is None:
            return
        one = z3.IntVal(1) if t == "int" else z3.RealVal(1)
        fs = [sq >= 0, (sq == 0) == (base == 0), z3.Implies(z3.Or(base >= one, base <= -one), sq >= one),
              z3.Implies(z3.And(base > -one, base < one), sq < one)]
        if rest is not None:
            fs.append(e == rest * sq)
            # a positive factor times a square >= 1 is at least the factor
            fs.append(z3.Implies(z3.And(rest > 0, sq >= one), e >= rest))
            fs.append(z3.Implies(rest >= 0, e >= 0))
        self.facts.add(z3.And(*fs))

    def branch_quiet(self, cond):
        if self.spec:
            return True
        return self.branch(cond)

    def _pyarith(self, op, a, b):
        def fr(x):
            if isinstance(x, float):
                return fractions.Fraction(x)
            return x
        try:
            if isinstance(op, ast.Add):
                return fr(a) + fr(b)
            if isinstance(op, ast.Sub):
                return fr(a) - fr(b)
            if isinstance(op, ast.Mult):
                return fr(a) * fr(b)
            if isinstance(op, ast.Div):
                return fractions.Fraction(fr(a)) / fractions.Fraction(fr(b))
            if isinstance(op, ast.FloorDiv):
                return fr(a) // fr(b)
            if isinstance(op, ast.Mod):
                return fr(a) % fr(b)
            if isinstance(op, ast.Pow):
                return fr(a) ** b
        except ZeroDivisionError:
            raise PyExc("ZeroDivisionError")
        raise Unsupported("arith")

    def compare(self, op, a, b):
        """-> python bool or z3 Bool"""
        if isinstance(op, (ast.Is, ast.IsNot)):
            if isinstance(a, LS.OptRid) and b is None or isinstance(b, LS.OptRid) and a is None:
                o = a if isinstance(a, LS.OptRid) else b
                return o.isnone if isinstance(op, ast.Is) else z3.Not(o.isnone)
            if (isinstance(a, SV) and a.t == "rid" and b is None) or (isinstance(b, SV) and b.t == "rid" and a is None):
                return isinstance(op, ast.IsNot)
            if self._isres(a) and self._isres(b):
                ea, na = self._res(a)
                eb, nb = self._res(b)
                r = z3.And(na == nb, z3.Implies(z3.Not(na), ea == eb))
                return r if isinstance(op, ast.Is) else z3.Not(r)
            if a is None or b is None:
                r = (a is None and b is None)
            elif isinstance(a, (PObj, DictVal, ListVal, SetVal)) or isinstance(b, (PObj, DictVal, ListVal, SetVal)):
                r = a is b
            else:
                raise Unsupported("`is` on values")
            return r if isinstance(op, ast.Is) else not r
        if isinstance(op, (ast.In, ast.NotIn)):
            r = self.contains(b, a)
            if isinstance(op, ast.NotIn):
                r = (not r) if isinstance(r, bool) else z3.Not(r)
            return r
        if isinstance(op, (ast.Eq, ast.NotEq)):
            r = self.equals(a, b)
            if isinstance(op, ast.NotEq):
                r = (not r) if isinstance(r, bool) else z3.Not(r)
            return r
        # ordering
        if self._isres(a) or self._isres(b):
            if not (self._isres(a) and self._isres(b)):
                raise Unsupported("ordering between a result and a non-result")
            ea, eb = self._res_notnone(a), self._res_notnone(b)
            a, b = SV(LS.rval(ea), "real"), SV(LS.rval(eb), "real")
        if a is None or b is None:
            raise PyExc("TypeError", "ordering comparison with None")
        inf = float("inf")
        for u, w, flip in ((a, b, False), (b, a, True)):
            if isinstance(u, float) and abs(u) == inf and not (isinstance(w, float) and abs(w) == inf):
                # u is +-inf, w finite
                less = u < 0            # u < w
                if flip:
                    less = not less     # now: a < b
                    return less if isinstance(op, (ast.Lt, ast.LtE)) else (not less)
                return less if isinstance(op, (ast.Lt, ast.LtE)) else (not less)
        def _lab(v):
            return isinstance(v, SV) and v.t == "label"
        if (is_num(a) or isinstance(a, bool)) and (is_num(b) or isinstance(b, bool)):
            x, y = a, b
        elif (_lab(a) or _lab(b)) and all(_lab(v) or is_intlike(v) for v in (a, b)):
            # integer labels (the labels of an enumerated model) compared as integers
            x, y = zint(a), zint(b)
        elif is_intlike(a) and is_intlike(b):
            x, y = zint(a), zint(b)
        else:
            x, y = zreal(a), zreal(b)
        if isinstance(op, ast.Lt):
            return x < y
        if isinstance(op, ast.LtE):
            return x <= y
        if isinstance(op, ast.Gt):
            return x > y
        if isinstance(op, ast.GtE):
            return x >= y
        raise Unsupported("compare %s" % type(op).__name__)

    # ------------------------------------------------------------------ non-interference of the weight (C16)
    def tainted(self, v):
        """does the value depend on a symbolic weight?"""
        if not self.taint:
            return False
        e = v.e if isinstance(v, SV) else (v if z3.is_expr(v) else None)
        if e is None:
            return False
        todo, seen = [e], set()
        while todo:
            t = todo.pop()
            i = t.get_id()
            if i in seen:
                continue
            seen.add(i)
            if i in self._taint_cache:
                if self._taint_cache[i]:
                    return True
                continue
            if z3.is_const(t) and t.decl().kind() == z3.Z3_OP_UNINTERPRETED and t.decl().name() in self.taint:
                self._taint_cache[e.get_id()] = True
                return True
            todo.extend(t.children())
        self._taint_cache[e.get_id()] = False
        return False

    def _taint_branch(self, cond):
        """a branch may test the weight for zero, but not order it (sympy cannot decide `Symbol > c`)"""
        todo = [cond]
        while todo:
            t = todo.pop()
            if z3.is_app(t) and t.decl().kind() in (z3.Z3_OP_LE, z3.Z3_OP_LT, z3.Z3_OP_GE, z3.Z3_OP_GT) and self.tainted(t):
                where = self.call_stack[-1] if self.call_stack else "?"
                self.taint_hits.append("branch on an ordering comparison of the symbolic weight in %s" % where)
                return
            if z3.is_app(t) and t.decl().kind() in (z3.Z3_OP_AND, z3.Z3_OP_OR, z3.Z3_OP_NOT, z3.Z3_OP_ITE, z3.Z3_OP_IMPLIES):
                todo.extend(t.children())

    def taint_use(self, what, *vals):
        """record a use of a tainted value that is not a ring operation or a zero test"""
        if self.taint and not self.spec and any(self.tainted(v) for v in vals):
            where = self.call_stack[-1] if self.call_stack else "?"
            self.taint_hits.append("%s in %s" % (what, where))

    def _isres(self, v):
        return isinstance(v, LS.OptRid) or (isinstance(v, SV) and v.t == "rid")

    def _res(self, v):
        if isinstance(v, LS.OptRid):
            return v.rid, v.isnone
        return v.e, z3.BoolVal(False)

    def _res_notnone(self, v):
        """the id of a result that must not be None here (AnnealResult.__lt__/__eq__ on None raises)"""
        if isinstance(v, LS.OptRid):
            if self.spec:
                return v.rid
            if self.branch(v.isnone):
                raise PyExc("TypeError", "comparison with None result")
            return v.rid
        return v.e

    def equals(self, a, b):
        if self._isres(a) and (self._isres(b) or b is None):
            # AnnealResult.__eq__(a, b) compares the fields; b must not be None
            ea = self._res_notnone(a)
            if b is None:
                raise PyExc("AttributeError", "NoneType has no attribute state")
            eb = self._res_notnone(b)
            LS.register_rid(self, ea)
            LS.register_rid(self, eb)
            return LS.req(ea, eb)
        if a is None or b is None:
            return a is None and b is None
        if isinstance(a, str) or isinstance(b, str):
            return isinstance(a, str) and isinstance(b, str) and a == b
        if isinstance(a, (set, frozenset)) and isinstance(b, (set, frozenset)):
            # small sets whose members may be symbolic: mutual inclusion, member by member
            def inc(A, B):
                cs = []
                for x in A:
                    ds = [self.equals(x, y) for y in B]
                    if any(d is True for d in ds):
                        continue
                    ds = [d for d in ds if d is not False]
                    if not ds:
                        return [False]
                    cs.append(z3.Or(*ds))
                return cs
            cs = inc(a, b) + inc(b, a)
            if any(c is False for c in cs):
                return False
            return z3.And(*cs) if cs else True
        ka = isinstance(a, tuple) or (isinstance(a, SV) and a.t == "key")
        kb = isinstance(b, tuple) or (isinstance(b, SV) and b.t == "key")
        if isinstance(a, tuple) and isinstance(b, tuple):
            if len(a) != len(b):
                return False
            cs = [self.equals(x, y) for x, y in zip(a, b)]
            if all(isinstance(c, bool) for c in cs):
                return all(cs)
            return z3.And(*[c if not isinstance(c, bool) else z3.BoolVal(c) for c in cs])
        if ka and kb:
            return self.as_key(a) == self.as_key(b)
        if ka != kb:
            return False
        if isinstance(a, (ClassRef, BuiltinClass)) or isinstance(b, (ClassRef, BuiltinClass)):
            return self.same_class(a, b)
        if isinstance(a, SV) and a.t == "label" or isinstance(b, SV) and b.t == "label":
            return self.as_label(a) == self.as_label(b)
        if isinstance(a, SV) and a.t == "bool" and isinstance(b, SV) and b.t == "bool":
            return a.e == b.e
        if (isinstance(a, SV) or is_num(a) or isinstance(a, bool)) and (isinstance(b, SV) or is_num(b) or isinstance(b, bool)):
            if is_num(a) and is_num(b):
                return a == b
            if is_intlike(a) and is_intlike(b):
                return zint(a) == zint(b)
            return zreal(a) == zreal(b)
        if isinstance(a, (PObj, DictVal, Ver)) and isinstance(b, (PObj, DictVal, Ver)):
            va, vb = self.store_of(a), self.store_of(b)
            return z3.And(va.dom == vb.dom, va.val == vb.val)
        if isinstance(a, SetVal) and isinstance(b, SetVal):
            return a.mem == b.mem
        raise Unsupported("== between %s and %s" % (type(a).__name__, type(b).__name__))

    def same_class(self, a, b):
        def nm(x):
            if isinstance(x, ClassRef):
                return x.cls.name
            if isinstance(x, BuiltinClass):
                return x.name
            raise Unsupported("class comparison with non-class")
        return nm(a) == nm(b)

    def contains(self, container, item):
        if isinstance(container, tuple) or isinstance(container, list):
            cs = [self.equals(item, c) for c in container]
            if all(isinstance(c, bool) for c in cs):
                return any(cs)
            return z3.Or(*[c if not isinstance(c, bool) else z3.BoolVal(c) for c in cs])
        if isinstance(container, (DictVal, PObj)):
            ver = self.store_of(container)
            k = self.as_dictkey(ver, item)
            if ver.ksort == T.Key and ver.vsort == T.Int:
                from .specfuncs import cons_note_key
                cons_note_key(self, k)
            return z3.Select(ver.dom, k)
        if isinstance(container, SetVal):
            return z3.Select(container.mem, self.as_label(item))
        if isinstance(container, SV) and container.t == "key":
            return T.memb(self.as_label(item), container.e)
        if isinstance(container, AssignVal):
            return True
        if isinstance(container, AbstractKeySet):
            k = self.as_key(item)
            self.facts.key(k)
            return container.pred(k)
        if isinstance(container, (frozenset, set)):
            cs = [self.equals(item, m) for m in container]
            if any(c is True for c in cs):
                return True
            cs = [c for c in cs if c is not False]
            return z3.Or(*cs) if cs else False
        raise Unsupported("`in` on %r" % (type(container).__name__,))

    def as_dictkey(self, ver, k):
        if ver.ksort == T.Key:
            return self.as_key(k)
        return self.as_label(k)

    # ------------------------------------------------------------------ dict / object primitives
    def dict_get(self, ver, k, default=0):
        """dict.get(k, default) on a version (default must be a number)"""
        if ver.kind == "empty":
            return default
        kk = self.as_dictkey(ver, k)
        if ver.ksort == T.Key:
            self.facts.key(kk)
        had = z3.Select(ver.dom, kk)
        val = z3.Select(ver.val, kk)
        d = zreal(default) if ver.vsort == T.Real else zint(default)
        t = "real" if ver.vsort == T.Real else "int"
        return SV(z3.If(had, val, d), t)

    def write_store(self, holder, newver):
        if self.spec:
            raise Unsupported("heap write inside a specification expression")
        if self.frame_writes is not None:
            self.frame_writes.add(id(holder))
        holder.ver = newver

    ATTR_DICT_SORTS = {"_mapping": ("label", "int"), "_reverse_mapping": ("int", "label")}

    def write_attr(self, obj, name, value):
        if self.spec:
            raise Unsupported("heap write inside a specification expression")
        if name in self.ATTR_DICT_SORTS and isinstance(value, DictVal) and value.ver.kind == "empty":
            # an empty dict literal has no key/value sorts yet: these two attributes map label <-> integer
            value = self.alloc(DictVal(FO.empty(self, T.Label, T.Int)))
        if self.frame_writes is not None:
            self.frame_writes.add((id(obj), name))
        obj.attrs[name] = value

    def raw_setitem(self, holder, k, v):
        ver = holder.ver
        if ver.kind == "empty" and ver.vsort == T.Real and ((isinstance(v, SV) and v.t in ("int", "label")) or
                                                          (isinstance(v, int) and not isinstance(v, bool) and False)):
            # `d = {}` followed by d[key] = <integer label>: a table key -> integer (e.g. the reductions of C01)
            ver = holder.ver = FO.empty(self, ver.ksort, T.Int)
        kk = self.as_dictkey(ver, k)
        c = zreal(v) if ver.vsort == T.Real else zint(v)
        self.write_store(holder, FO.setitem(self, ver, kk, c))

    def raw_pop(self, holder, k, default=None, has_default=True):
        ver = holder.ver
        kk = self.as_dictkey(ver, k)
        had = z3.Select(ver.dom, kk)
        old = z3.Select(ver.val, kk)
        if not has_default:
            if not self.branch(had):
                raise PyExc("KeyError")
            if not any(kk.eq(pk) for pk, _ in ver.picked):
                FO.note_present(self, ver, kk, old)          # the popped item was an item: all-folds hold for it
            res = SV(old, "real" if ver.vsort == T.Real else "int")
        else:
            d = zreal(default) if ver.vsort == T.Real else zint(default)
            res = SV(z3.If(had, old, d), "real" if ver.vsort == T.Real else "int")
        self.write_store(holder, FO.popitem(self, ver, kk))
        return res

    def new_dict(self, ksort=None, vsort=None, pyclass="dict"):
        return DictVal(FO.empty(self, ksort or T.Key, vsort or T.Real), pyclass)

    # ------------------------------------------------------------------ statements
    def exec_block(self, stmts, fr):
        for s in stmts:
            self.exec_stmt(s, fr)

    def exec_stmt(self, s, fr):
        m = getattr(self, "st_" + type(s).__name__, None)
        if m is None:
            raise Unsupported("statement %s (line %d)" % (type(s).__name__, getattr(s, "lineno", 0)))
        return m(s, fr)

    def st_Expr(self, s, fr):
        if isinstance(s.value, ast.Constant) and isinstance(s.value.value, str):
            return
        self.eval(s.value, fr)

    def st_Pass(self, s, fr):
        return

    def ex_Yield(self, n, fr):
        item = self.eval(n.value, fr) if n.value is not None else None
        g = self.gen_state
        if g is None:
            raise Unsupported("yield outside a generator under verification")
        c, env, frame0 = g["contract"], g["env"], g["frame"]
        ienv = dict(env)
        names = c.gen["item"]
        vals = self.unpack(item, len(names)) if len(names) > 1 else [item]
        for nm, v in zip(names, vals):
            ienv[nm] = v
        if c.gen.get("each"):
            self.oblige("%s/yield.each" % c.qualname, self.spec_bool(c.gen["each"], ienv, frame0))
        term = self.eval_spec(c.gen["sum"], ienv, frame0)
        g["yielded"] = self.binop(ast.Add(), g["yielded"], term)
        fr_top = g["topframe"]
        fr_top.locals["yielded"] = g["yielded"]
        return None

    def st_Return(self, s, fr):
        raise _Return(self.eval(s.value, fr) if s.value is not None else None)

    def st_Break(self, s, fr):
        raise _Break()

    def st_Continue(self, s, fr):
        raise _Continue()

    def st_Raise(self, s, fr):
        exc = s.exc
        name, msg = "Exception", ""
        if isinstance(exc, ast.Call) and isinstance(exc.func, ast.Name):
            name = exc.func.id
        elif isinstance(exc, ast.Name):
            name = exc.id
        raise PyExc(name, msg)

    def st_Assign(self, s, fr):
        v = self.eval(s.value, fr)
        for t in s.targets:
            self.assign(t, v, fr)

    def st_AugAssign(self, s, fr):
        t = s.target
        if isinstance(t, ast.Name):
            cur = self.load_name(t.id, fr)
            new = self.aug(s.op, cur, self.eval(s.value, fr))
            fr.locals[t.id] = new
        elif isinstance(t, ast.Subscript):
            obj = self.eval(t.value, fr)
            idx = self.eval_index(t.slice, fr)
            cur = self.getitem(obj, idx)
            rhs = self.eval(s.value, fr)
            new = self.aug(s.op, cur, rhs)
            self.setitem(obj, idx, new)
        elif isinstance(t, ast.Attribute):
            obj = self.eval(t.value, fr)
            cur = self.getattr(obj, t.attr)
            new = self.aug(s.op, cur, self.eval(s.value, fr))
            self.setattr(obj, t.attr, new)
        else:
            raise Unsupported("augassign target")

    def aug(self, op, cur, rhs):
        if isinstance(cur, PObj):
            return self.obj_inplace(op, cur, rhs)
        return self.binop(op, cur, rhs)

    def assign(self, t, v, fr):
        if isinstance(t, ast.Name):
            fr.locals[t.id] = v
        elif isinstance(t, (ast.Tuple, ast.List)):
            vals = self.unpack(v, len(t.elts))
            for tt, vv in zip(t.elts, vals):
                self.assign(tt, vv, fr)
        elif isinstance(t, ast.Subscript):
            obj = self.eval(t.value, fr)
            idx = self.eval_index(t.slice, fr)
            self.setitem(obj, idx, v)
        elif isinstance(t, ast.Attribute):
            obj = self.eval(t.value, fr)
            self.setattr(obj, t.attr, v)
        else:
            raise Unsupported("assignment target %s" % type(t).__name__)

    def unpack(self, v, n):
        if isinstance(v, (tuple, list)):
            if len(v) != n:
                raise PyExc("ValueError", "unpack")
            return list(v)
        if isinstance(v, ListVal):
            if len(v.items) != n:
                raise PyExc("ValueError", "unpack")
            return list(v.items)
        if isinstance(v, SV) and v.t == "key":
            if not self.branch(z3.Length(v.e) == n):
                raise PyExc("ValueError", "unpack")
            out = []
            for i in range(n):
                e = v.e[i]
                self.facts.label(e)
                out.append(SV(e, "label"))
            return out
        raise Unsupported("unpack of %r" % (type(v).__name__,))

    def st_If(self, s, fr):
        if self._is_suppressed_warning(s):
            # `if not suppress_warnings: QUBOVertWarning.warn(msg)`: the ghost list `warned` records what the library
            # determined (msg), whether or not the caller asked to be told
            self.warned.append(s.body[0].value.args[0].value)
            return
        c = self.tobool(self.eval(s.test, fr))
        if self.branch(c):
            self.exec_block(s.body, fr)
        else:
            self.exec_block(s.orelse, fr)

    @staticmethod
    def _is_suppressed_warning(s):
        t = s.test
        if not (isinstance(t, ast.UnaryOp) and isinstance(t.op, ast.Not) and isinstance(t.operand, ast.Name)
                and t.operand.id == "suppress_warnings" and not s.orelse and len(s.body) == 1):
            return False
        b = s.body[0]
        return (isinstance(b, ast.Expr) and isinstance(b.value, ast.Call) and isinstance(b.value.func, ast.Attribute)
                and b.value.func.attr == "warn" and isinstance(b.value.func.value, ast.Name)
                and b.value.func.value.id == "QUBOVertWarning" and len(b.value.args) == 1
                and isinstance(b.value.args[0], ast.Constant) and isinstance(b.value.args[0].value, str))

    def st_FunctionDef(self, s, fr):
        outer = fr.closure.name if fr.closure else "?"
        fr.locals[s.name] = Closure(s, fr, fr.closure.module if fr.closure else "?", None,
                                    name="%s.<locals>.%s" % (outer, s.name))

    def st_Try(self, s, fr):
        if s.orelse:
            raise Unsupported("try/else")
        if not s.finalbody:
            return self._try_body(s, fr)
        # try / except / finally: the final block runs on every way out (normal, return, break, continue, exception)
        try:
            self._try_body(s, fr)
        except (PyExc, _Return, _Break, _Continue):
            self.exec_block(s.finalbody, fr)
            raise
        self.exec_block(s.finalbody, fr)

    def _try_body(self, s, fr):
        try:
            self.exec_block(s.body, fr)
        except PyExc as e:
            for h in s.handlers:
                names = []
                if h.type is None:
                    names = None
                elif isinstance(h.type, ast.Name):
                    names = [h.type.id]
                elif isinstance(h.type, ast.Tuple):
                    names = [x.id for x in h.type.elts if isinstance(x, ast.Name)]
                if names is None or e.name in names or "Exception" in names:
                    self.exec_block(h.body, fr)
                    return
            raise

    def st_Assert(self, s, fr):
        c = self.tobool(self.eval(s.test, fr))
        if not self.branch(c):
            raise PyExc("AssertionError")

    def st_While(self, s, fr):
        """while loop cut at an invariant (contract.loops["w<n>"], n = ordinal among the while loops of the function):
        init / step (arbitrary iteration: havoc, assume invariant and condition, execute the body, re-establish) /
        exit (invariant and negated condition)."""
        if s.orelse:
            raise Unsupported("while/else")
        ordinal = self.static_ordinal(fr, s, ast.While)
        c = self.frame_contract(fr)
        spec = c.loops.get("w%d" % ordinal) if c is not None else None
        if spec is None:
            raise Unsupported("while loop %d of %s has no invariant" % (ordinal, fr.closure.qualname() if fr.closure else "?"))
        qn = fr.closure.qualname()
        kindname = "while%d" % ordinal
        sig = "while %s" % ast.unparse(s.test)
        want = (getattr(self, "loopsigs", None) or {}).get(qn, {}).get("w%d" % ordinal)
        if want is not None and want != sig:
            raise Unsupported("while loop %d of %s was %r when its invariant was written, now %r" % (ordinal, qn, want, sig))
        self.seen_loopsigs.setdefault(qn, {})["w%d" % ordinal] = sig
        names, objnames = self.modified_in(s.body, fr)
        for extra in spec.get("modifies", ()):
            objnames.add(extra)
        objnames = {p for p in objnames if not any(p != q and p.startswith(q + ".") for q in objnames)}
        if not hasattr(self, "loop_pre") or self.loop_pre is None:
            self.loop_pre = []
        self.loop_pre.append((dict(fr.locals), self.snapshot(list(fr.locals.values()))))
        inv_ast = ast.parse(spec["invariant"], mode="eval").body
        conjuncts = inv_ast.values if isinstance(inv_ast, ast.BoolOp) and isinstance(inv_ast.op, ast.And) else [inv_ast]

        def inv_parts():
            out = []
            for cj in conjuncts:
                t = self.tobool(self.eval_spec(cj, dict(fr.locals), fr))
                out.append(z3.BoolVal(t) if isinstance(t, bool) else t)
            return out

        def oblige_inv(kind):
            for ci, p in enumerate(inv_parts()):
                self.oblige("%s.c%d" % (kind, ci) if len(conjuncts) > 1 else kind, p, note=ast.unparse(conjuncts[ci])[:160])
        oblige_inv("%s/%s.init" % (qn, kindname))
        allowed = self._loop_havoc(spec, names, objnames, fr)
        alloc_mark = getattr(self, "nalloc", 0)
        if self.loop_phase("w%d" % ordinal, fr) == "step":
            for p in inv_parts():
                self.assume(p)
            if not self.branch(self.tobool(self.eval(s.test, fr))):
                raise PathInfeasible()
            saved_fw = self.frame_writes
            self.frame_writes = set()
            try:
                self.exec_block(s.body, fr)
            except _Continue:
                pass
            except _Break:
                raise Unsupported("break out of a while loop")
            finally:
                fw, self.frame_writes = self.frame_writes, saved_fw
                if saved_fw is not None:
                    saved_fw |= fw
            for w in fw:
                if w not in allowed and self._preexisting(w, alloc_mark):
                    raise Unsupported("loop frame inference missed a write to %r" % (w,))
            oblige_inv("%s/%s.step" % (qn, kindname))
            raise PathInfeasible()
        for p in inv_parts():
            self.assume(p)
        if self.branch(self.tobool(self.eval(s.test, fr))):
            raise PathInfeasible()
        self.loop_pre.pop()

    # ------------------------------------------------------------------ for loops
    def st_For(self, s, fr):
        if s.orelse:
            raise Unsupported("for/else")
        it = self.eval(s.iter, fr)
        if isinstance(it, DictVal) or (isinstance(it, PObj) and it.store is not None):
            holder = it.store if isinstance(it, PObj) else it          # `for k in d`: the keys
            it = ItemsView(self.store_of(holder), "keys", owner=holder)
        ordinal = self.static_ordinal(fr, s, ast.For)
        conc = self.concrete_iter(it)
        if conc is not None:
            for item in conc:
                self.assign(s.target, item, fr)
                try:
                    self.exec_block(s.body, fr)
                except _Break:
                    break
                except _Continue:
                    continue
            return
        self.symbolic_for(s, it, fr, ordinal)

    def static_ordinal(self, fr, node, kind):
        """1-based position of node among the nodes of that kind in the enclosing function (source order,
        nested function bodies excluded)"""
        fd = fr.closure.fdef if fr.closure is not None else None
        if fd is None:
            return 0
        cache = getattr(fd, "_qvc_ord", None)
        if cache is None:
            cache = {}
            counters = {}

            def walk(n, top):
                for ch in ast.iter_child_nodes(n):
                    if isinstance(ch, (ast.FunctionDef, ast.Lambda)):
                        continue
                    for kd in (ast.For, ast.GeneratorExp, ast.While):
                        if isinstance(ch, kd):
                            counters[kd] = counters.get(kd, 0) + 1
                            cache[id(ch)] = counters[kd]
                    walk(ch, False)
            walk(fd, True)
            fd._qvc_ord = cache
        return cache.get(id(node), 0)

    def concrete_iter(self, it):
        if isinstance(it, (tuple, list)):
            return list(it)
        if isinstance(it, (frozenset, set)):
            return list(it)
        if isinstance(it, DictVal) and it.ver.kind == "empty":
            return []            # a dict literal nothing was written to
        if isinstance(it, ListVal):
            return list(it.items)
        if isinstance(it, range):
            return list(it)
        if isinstance(it, SeqIter) and it.kind == "concrete":
            return list(it.data)
        if isinstance(it, ItemsView) and "size" in it.ver.cache and not self.spec:
            # a dict whose number of items is fixed by the path condition (the code tested len(d) == n, n <= 3):
            # its items are the n enumerated ones (lemma L11-enum)
            from . import folds as FO
            sz = it.ver.cache["size"]
            known = getattr(it.ver, "exact_size", None)
            if known is None:
                for n in range(0, 4):
                    if self.feasible(sz == n) and not self.feasible(sz != n):
                        known = it.ver.exact_size = n
                        break
            if known is not None:
                out = []
                for i in range(known):
                    k, v = FO.nth_item(self, it.ver, i)
                    ks = SV(k, "key" if it.ver.ksort == T.Key else "label")
                    vs = SV(v, "real" if it.ver.vsort == T.Real else "int")
                    out.append({"keys": ks, "values": vs, "items": (ks, vs)}[it.mode])
                return out
        return None

    def loop_spec(self, fr, ordinal):
        c = self.frame_contract(fr)
        if c is None:
            return None
        return c.loops.get(ordinal)

    def frame_contract(self, fr):
        if fr.closure is None:
            return None
        return self.contracts.get(fr.closure.qualname())

    def modified_in(self, body, fr):
        """syntactic over-approximation of the names assigned and the object paths written in a loop body.
        Paths are dotted: 'D' (the whole object D refers to) or 'self._variables' (one attribute / sub-object)."""
        names, paths, subs = set(), set(), set()
        self._sub_paths = subs

        def path_of(e):
            parts = []
            while isinstance(e, ast.Attribute):
                parts.append(e.attr)
                e = e.value
            if isinstance(e, ast.Name):
                return ".".join([e.id] + parts[::-1])
            return None

        def base_name(e):
            while isinstance(e, (ast.Subscript, ast.Attribute, ast.Call)):
                e = e.value if not isinstance(e, ast.Call) else e.func
            return e.id if isinstance(e, ast.Name) else None

        class V(ast.NodeVisitor):
            def visit_Assign(v, node):
                for t in node.targets:
                    v.target(t)
                v.generic_visit(node)

            def visit_AugAssign(v, node):
                v.target(node.target)
                v.generic_visit(node)

            def visit_For(v, node):
                v.target(node.target)
                v.generic_visit(node)

            def target(v, t):
                if isinstance(t, ast.Name):
                    names.add(t.id)
                elif isinstance(t, (ast.Tuple, ast.List)):
                    for e in t.elts:
                        v.target(e)
                elif isinstance(t, ast.Attribute):
                    p = path_of(t)
                    if p is not None:
                        paths.add(p)
                    else:
                        b = base_name(t)
                        if b:
                            paths.add(b)
                elif isinstance(t, ast.Subscript):
                    p = path_of(t.value)
                    if p is not None:
                        paths.add(p)
                        subs.add(p)
                    else:
                        b = base_name(t)
                        if b:
                            paths.add(b)

            def visit_Call(v, node):
                f = node.func
                if isinstance(f, ast.Attribute) and f.attr not in PURE_METHODS:
                    p = path_of(f.value)
                    if p is not None:
                        paths.add(p)
                    else:
                        b = base_name(f.value)
                        if b:
                            paths.add(b)
                v.generic_visit(node)
        vis = V()
        for st in body:
            vis.visit(st)
        # drop paths subsumed by a shorter one
        paths = {p for p in paths if not any(p != q and p.startswith(q + ".") for q in paths)}
        return names, paths

    def resolve_path(self, fr, path):
        """-> (owner PObj or None, attr or None, value)"""
        parts = path.split(".")
        try:
            v = self.load_name(parts[0], fr)
        except Unsupported:
            return None, None, None
        owner, attr = None, None
        for a in parts[1:]:
            if not isinstance(v, PObj) or a not in v.attrs:
                return None, None, None
            owner, attr = v, a
            v = v.attrs[a]
        return owner, attr, v

    def havoc_path(self, fr, path):
        if path.endswith(".<store>"):
            o = self.resolve_path(fr, path[:-8])[2]
            if isinstance(o, PObj) and o.store is not None:
                self.havoc_object(o.store, path[:-8].replace(".", "_") + "_store")
                return {id(o.store)}
            return set()
        owner, attr, v = self.resolve_path(fr, path)
        if v is None and owner is None:
            return set()
        keys = set()
        if owner is not None:
            keys.add((id(owner), attr))
        if isinstance(v, OpaqueTable):
            keys.add(id(v))
        elif isinstance(v, EN.Groups):
            keys.add(id(v))
            EN.havoc_groups(self, v, path.replace(".", "_"))
        elif isinstance(v, (DictVal, PObj, SetVal)):
            keys |= set(self.snapshot([v]).keys())
            self.havoc_object(v, path.replace(".", "_"))
        elif owner is not None and not (v is None or isinstance(v, str)):
            self.write_attr(owner, attr, self.havoc_value(v, path.replace(".", "_")))
        return keys

    def fresh_optrid(self, hint):
        self.nfresh += 1
        r = LS.new_rid(self, hint)
        return LS.OptRid(z3.Bool("%s_none!%d" % (hint, self.nfresh)), r.e)

    def havoc_value(self, v, hint):
        """fresh value of the same shape"""
        if isinstance(v, LS.OptRid) or (isinstance(v, SV) and v.t == "rid"):
            return self.fresh_optrid(hint) if isinstance(v, LS.OptRid) else LS.new_rid(self, hint)
        if isinstance(v, SV):
            return self.fresh(v.t, hint)
        if isinstance(v, bool):
            return self.fresh("bool", hint)
        if isinstance(v, int):
            return self.fresh("int", hint)
        if is_num(v):
            return self.fresh("real", hint)
        if isinstance(v, tuple) and all(isinstance(x, SV) and x.t in ("label", "int") or (isinstance(x, (int, str)) and not isinstance(x, bool)) for x in v):
            return self.fresh("key", hint)          # a tuple of labels (possibly empty) that the loop rebuilds
        return Opaque("havocked %s (was %s)" % (hint, type(v).__name__))

    def havoc_object(self, o, hint):
        if isinstance(o, LS.LHolder):
            self.write_lstore(o, LS.base(self, hint))
            return
        if isinstance(o, PObj) and getattr(o, "lstore", None) is not None:
            self.havoc_object(o.lstore, hint)
            if "best" not in o.attrs or o.attrs["best"] is None:
                self.write_attr(o, "best", self.fresh_optrid(hint + "_best"))
        if isinstance(o, DictVal):
            self.write_store(o, FO.base(self, o.ver.ksort, o.ver.vsort, hint))
        elif isinstance(o, PObj):
            if o.store is not None:
                self.havoc_object(o.store, hint)
            for a, val in list(o.attrs.items()):
                if isinstance(val, (DictVal, SetVal)):
                    self.havoc_object(val, hint + "_" + a)
                elif isinstance(val, (SV, int, float, bool, LS.OptRid)) and not isinstance(val, str):
                    self.write_attr(o, a, self.havoc_value(val, hint + "_" + a))
        elif isinstance(o, SetVal):
            self.nfresh += 1
            o.mem = z3.Const("%s_mem!%d" % (hint, self.nfresh), z3.ArraySort(T.Label, T.Bool))
            o.card = z3.Int("%s_card!%d" % (hint, self.nfresh))
            self.facts.add(z3.And(o.card >= 0, o.card == T.CARD(o.mem)))
        else:
            raise Unsupported("cannot havoc object of type %s" % type(o).__name__)

    def _loop_havoc(self, spec, names, objnames, fr):
        """forget everything the loop body may change (locals assigned, objects written); returns the set of heap
        locations the body is allowed to write"""
        for n_, kind_ in spec.get("vars", {}).items():
            v_ = fr.locals.get(n_)
            if kind_ == "inttable" and isinstance(v_, DictVal) and v_.ver.kind == "empty" and v_.ver.vsort == T.Real:
                v_.ver = FO.empty(self, v_.ver.ksort, T.Int)      # `d = {}` that will hold integer labels
        live = [n for n in names if n in fr.locals]
        for n in live:
            v = fr.locals[n]
            if isinstance(v, (DictVal, PObj, SetVal, EN.Groups, OpaqueTable)):
                continue
            kind = spec.get("vars", {}).get(n)
            if kind in ("bestpair", "bestpair2"):
                continue            # after the havoc of the objects (it forks the path)
            if kind == "optrid":
                fr.locals[n] = self.fresh_optrid(n)
            else:
                fr.locals[n] = self.havoc_value(v, n)
        allowed = set()
        for on in sorted(objnames | set(live)):
            allowed |= self.havoc_path(fr, on)
        for n in live:
            if spec.get("vars", {}).get(n) == "bestpair2":
                # (None, None) before any pair was examined, (None, pair) for a pair taken from the hints,
                # (frequency, pair) otherwise; pair is a 2-tuple of labels
                self.nfresh += 1
                which = z3.Int("%s_shape!%d" % (n, self.nfresh))
                if self.branch(which == 0):
                    fr.locals[n] = (None, None)
                else:
                    pr = (self.fresh("label", n + "_p0"), self.fresh("label", n + "_p1"))
                    fr.locals[n] = ((None if self.branch(which == 1) else self.fresh("int", n + "_freq")), pr)
            if spec.get("vars", {}).get(n) == "bestpair":
                # best = (None, {}) before the first valid assignment, (value, assignment) afterwards: the havocked
                # pair is one or the other (the path forks)
                self.nfresh += 1
                if self.branch(z3.Bool("%s_none!%d" % (n, self.nfresh))):
                    fr.locals[n] = (None, self.alloc(DictVal(FO.empty(self, T.Key, T.Real))))
                else:
                    fr.locals[n] = (self.fresh("real", n + "_value"), EN.fresh_asg(self, n + "_solution"))
        return allowed

    def symbolic_for(self, s, it, fr, ordinal):
        spec = self.loop_spec(fr, ordinal)
        if spec is None:
            raise Unsupported("loop %d over a symbolic collection in %s has no invariant" %
                              (ordinal, fr.closure.qualname() if fr.closure else "?"))
        qn = fr.closure.qualname()
        kindname = "loop%d" % ordinal
        # the invariant was written for a particular loop: if the header changed, the function leaves reach
        sig = "for %s in %s" % (ast.unparse(s.target), ast.unparse(s.iter))
        want = (getattr(self, "loopsigs", None) or {}).get(qn, {}).get(str(ordinal))
        if want is not None and want != sig:
            raise Unsupported("loop %d of %s was %r when its invariant was written, now %r" % (ordinal, qn, want, sig))
        self.seen_loopsigs.setdefault(qn, {})[str(ordinal)] = sig
        names, objnames = self.modified_in(s.body, fr)
        for extra in spec.get("modifies", ()):
            objnames.add(extra)
        # an item assignment `obj[k] = v` on a model object changes what its __setitem__ contract says it changes
        for pth in list(getattr(self, "_sub_paths", ())):
            if pth in objnames and pth not in spec.get("modifies", ()):
                o = self.resolve_path(fr, pth)[2]
                if isinstance(o, PObj) and o.store is not None:
                    k, fd, kind = self.db.find_method(o.cls, "__setitem__")
                    sc = self.contracts.get("%s:%s.__setitem__" % (k.module, k.name)) if fd is not None else None
                    if sc is not None and not any(m == "self" for m in sc.modifies):
                        objnames.discard(pth)
                        objnames.add(pth + ".<store>")
                        for m in sc.modifies:
                            if m.startswith("self."):
                                objnames.add(pth + m[4:])
        objnames = {p for p in objnames if not any(p != q and p.startswith(q + ".") for q in objnames)}
        # ---- the collection
        filt = None
        if isinstance(it, SeqIter) and it.kind == "filtered":
            filt, it = it.data
        if isinstance(it, tuple) and it and all(isinstance(x, SV) and x.t == "label" for x in it):
            it = SV(self.as_key(it), "key")
        enum = False
        if isinstance(it, SeqIter) and it.kind == "enumkey":
            enum, it = True, it.data
        if isinstance(it, ItemsView):
            ckind, coll = "dict", it.ver
            if not it.snapshot and it.owner is not None:
                for on in objnames:
                    o = self.resolve_path(fr, on)[2]
                    if o is it.owner or (isinstance(o, PObj) and o.store is it.owner):
                        raise Unsupported("loop body writes the dict being iterated")
        elif isinstance(it, SV) and it.t == "key":
            ckind, coll = "key", it
        elif isinstance(it, PObj) and getattr(it, "lstore", None) is not None:
            ckind, coll = "list", self.lver_of(it)
        elif isinstance(it, LS.ResIter) or (isinstance(it, SeqIter) and it.kind in ("genexp", "mapped", "filtered")
                                           and self._over_results(it)):
            ckind, coll = "results", None
        elif isinstance(it, SeqIter) and it.kind == "gen":
            ckind, coll = "gen", it.data
        elif isinstance(it, EN.Product):
            ckind, coll = "product", it
        elif isinstance(it, SO.SolVal) and (it.view == "values" or (it.view is None and it.container != "dict")):
            ckind, coll = "sol", it
        elif isinstance(it, SeqIter) and it.kind == "range":
            ckind = "range"
            a = it.data
            lo, hi = (0, a[0]) if len(a) == 1 else (a[0], a[1])
            if len(a) > 2:
                raise Unsupported("range with step")
            coll = (zint(lo), zint(hi))
        else:
            raise Unsupported("symbolic loop over %s" % type(it).__name__)
        inv_src = spec["invariant"]
        gname = "visited%d" % ordinal
        if not hasattr(self, "loop_pre") or self.loop_pre is None:
            self.loop_pre = []
        self.loop_pre.append((dict(fr.locals), self.snapshot(list(fr.locals.values()))))

        inv_ast = ast.parse(inv_src, mode="eval").body
        conjuncts = inv_ast.values if isinstance(inv_ast, ast.BoolOp) and isinstance(inv_ast.op, ast.And) else [inv_ast]

        def inv_parts(ghost):
            env = dict(fr.locals)
            env["visited"] = ghost
            env[gname] = ghost
            if ckind == "dict":
                env["coll"] = coll
                env["coll%d" % ordinal] = coll
            out = []
            for cj in conjuncts:
                t = self.tobool(self.eval_spec(cj, env, fr))
                out.append(z3.BoolVal(t) if isinstance(t, bool) else t)
            return out

        def inv(ghost):
            ps = inv_parts(ghost)
            return z3.And(*ps) if len(ps) > 1 else ps[0]

        def oblige_inv(kind, ghost):
            """each conjunct of the invariant is its own obligation (better diagnostics)"""
            for ci, p in enumerate(inv_parts(ghost)):
                self.oblige("%s.c%d" % (kind, ci) if len(conjuncts) > 1 else kind, p,
                            note=ast.unparse(conjuncts[ci])[:160])
        # ---- peeled first iteration (loop spec "peel": True, loops over a key): when the accumulator changes its
        # type in the first iteration (P = 1; for v in vs: P *= model(v)), the first pass is executed as ordinary
        # code and the loop rule covers the remaining elements, with `visited` starting at [first]
        peeled = None
        if spec.get("peel"):
            if ckind != "key":
                raise Unsupported("peel on a loop that is not over a key")
            if not self.branch(z3.Length(coll.e) > 0):
                self.loop_pre.pop()
                return
            first = coll.e[0]
            self.facts.label(first)
            peeled = SV(self.facts.unit(first), "key")
            self.assign(s.target, SV(first, "label"), fr)
            try:
                self.exec_block(s.body, fr)
            except _Continue:
                pass
            except _Break:
                raise Unsupported("break inside an invariant loop")
        # ---- init
        if ckind == "dict":
            g0 = FO.empty(self, coll.ksort, coll.vsort)
        elif ckind == "key" and peeled is not None:
            g0 = peeled
        elif ckind == "key":
            g0 = SV(T.empty_key(), "key")
            self.facts.key(g0.e)
        elif ckind == "gen":
            g0 = 0
        elif ckind == "list":
            g0 = LS.empty(self)
        elif ckind == "results":
            g0 = None
        elif ckind == "sol":
            g0 = SV(z3.K(T.Int, z3.BoolVal(False)), "idxset")
        elif ckind == "product":
            g0 = SV(z3.K(EN.Asg, z3.BoolVal(False)), "asgset")
        else:
            g0 = SV(coll[0], "int")
        oblige_inv("%s/%s.init" % (qn, kindname), g0)
        allowed = self._loop_havoc(spec, names, objnames, fr)
        alloc_mark = getattr(self, "nalloc", 0)
        # ---- step (explored as a side path: decisions made inside the step are local to it)
        if self.loop_phase(ordinal, fr) == "step":
            if ckind == "dict":
                vis = FO.base(self, coll.ksort, coll.vsort, "visited", subdict_of=coll)
                fr.locals[gname] = vis
                self.assume(inv(vis))
                k = self.fresh("key" if coll.ksort == T.Key else "label", "k")
                self.assume(z3.Select(coll.dom, k.e))
                self.assume(z3.Not(z3.Select(vis.dom, k.e)))
                vv = z3.Select(coll.val, k.e)
                v = SV(vv, "real" if coll.vsort == T.Real else "int")
                FO.note_present(self, coll, k.e, vv)
                item = {"items": (k, v), "keys": k, "values": v}[it.mode]
                vis2 = FO.setitem(self, vis, k.e, vv)
            elif ckind == "key":
                pre = self.fresh("key", "pre")
                rest = self.fresh("key", "rest")
                i = self.fresh("label", "i")
                fr.locals[gname] = pre
                if peeled is not None:
                    ptail = self.fresh("key", "ptail")
                    self.assume(pre.e == self.facts.concat(peeled.e, ptail.e))
                self.assume(inv(pre))
                pre2 = SV(self.facts.concat(pre.e, self.facts.unit(i.e)), "key")
                self.assume(coll.e == self.facts.concat(pre2.e, rest.e))
                self.facts.add(T.memb(i.e, coll.e))
                item, vis2 = i, pre2
                if enum:
                    item = (SV(z3.Length(pre.e), "int"), i)
            elif ckind == "list":
                vis = LS.base(self, "visited")
                fr.locals[gname] = vis
                self.assume(inv(vis))
                r = LS.new_rid(self, "elem")
                self.assume(z3.Select(coll.cnt, r.e) > z3.Select(vis.cnt, r.e))
                self.assume(vis.length < coll.length)
                item, vis2 = r, LS.append(self, vis, r.e)
            elif ckind == "results":
                fr.locals[gname] = None
                self.assume(inv(None))
                item, vis2 = LS.new_rid(self, "elem"), None
            elif ckind == "sol":
                # the values of an indexed solution, each index of [0, n) once
                self.nfresh += 1
                self.quantified = True
                V = z3.Const("visited!%d" % self.nfresh, z3.ArraySort(T.Int, T.Bool))
                jq = z3.Int("jq!%d" % self.nfresh)
                self.assume(z3.ForAll([jq], z3.Implies(z3.Select(V, jq), z3.And(jq >= 0, jq < coll.n))))
                vis = SV(V, "idxset")
                fr.locals[gname] = vis
                self.assume(inv(vis))
                j = self.fresh("int", "j")
                self.assume(z3.And(j.e >= 0, j.e < coll.n, z3.Not(z3.Select(V, j.e))))
                item, vis2 = SV(z3.Select(coll.arr, j.e), "real"), SV(z3.Store(V, j.e, z3.BoolVal(True)), "idxset")
            elif ckind == "product":
                # every tuple of the product exactly once (trusted specification of itertools.product): the visited
                # tuples are some of them, the current one is another
                self.nfresh += 1
                V = z3.Const("visited!%d" % self.nfresh, EN.SetSort)
                tq = z3.Const("tq!%d" % self.nfresh, EN.Asg)
                self.quantified = True
                self.assume(z3.ForAll([tq], z3.Implies(z3.Select(V, tq), coll.member(tq))))
                vis = SV(V, "asgset")
                fr.locals[gname] = vis
                self.assume(inv(vis))
                t = EN.fresh_asg(self, "t", "asgtuple")
                self.assume(coll.member(t.e))
                self.assume(z3.Not(z3.Select(V, t.e)))
                item, vis2 = t, SV(z3.Store(V, t.e, z3.BoolVal(True)), "asgset")
            elif ckind == "gen":
                gc, genv = coll["contract"], coll["env"]
                part = self.fresh("real", "partial")
                fr.locals[gname] = part
                self.assume(inv(part))
                ienv = dict(genv)
                vals = []
                for nm, kd in zip(gc.gen["item"], gc.gen["kinds"]):
                    val = self.fresh(kd, nm)
                    ienv[nm] = val
                    vals.append(val)
                gfr = Frame(coll["closure"], dict(genv))
                if gc.gen.get("each"):
                    self.assume(self.spec_bool(gc.gen["each"], ienv, gfr))
                term = self.eval_spec(gc.gen["sum"], ienv, gfr)
                item = tuple(vals) if len(vals) > 1 else vals[0]
                vis2 = self.binop(ast.Add(), part, term)
            else:
                cnt = self.fresh("int", "i")
                fr.locals[gname] = cnt
                self.assume(z3.And(cnt.e >= coll[0], cnt.e < coll[1]))
                self.assume(inv(cnt))
                item, vis2 = cnt, SV(cnt.e + 1, "int")
            skip = False
            if filt is not None:
                if not self.branch(self.tobool(self.call(filt, [item], {}))):
                    skip = True
            if not skip:
                self.assign(s.target, item, fr)
                saved_fw = self.frame_writes
                self.frame_writes = set()
                broke = False
                try:
                    self.exec_block(s.body, fr)
                except _Continue:
                    pass
                except _Break:
                    broke = True
                finally:
                    fw, self.frame_writes = self.frame_writes, saved_fw
                    if saved_fw is not None:
                        saved_fw |= fw
                if broke:
                    # `break` at an arbitrary iteration: the path goes on after the loop, in the state reached (the
                    # invariant held when this iteration began; nothing is claimed about the unvisited elements)
                    for w in fw:
                        if w not in allowed and self._preexisting(w, alloc_mark):
                            raise Unsupported("loop frame inference missed a write to %r" % (w,))
                    fr.locals.pop(gname, None)
                    self.loop_pre.pop()
                    return
                for w in fw:
                    if w not in allowed and self._preexisting(w, alloc_mark):
                        raise Unsupported("loop frame inference missed a write to %r" % (w,))
            fr.locals[gname] = vis2
            oblige_inv("%s/%s.step" % (qn, kindname), vis2)
            raise PathInfeasible()      # the step path ends here
        # ---- exit
        if ckind == "dict":
            gN = coll
        elif ckind == "key":
            gN = coll
        elif ckind == "list":
            gN = coll
        elif ckind == "results":
            gN = None
        elif ckind == "sol":
            self.nfresh += 1
            jq = z3.Int("jq!%d" % self.nfresh)
            gN = SV(z3.Lambda([jq], z3.And(jq >= 0, jq < coll.n)), "idxset")
        elif ckind == "product":
            self.nfresh += 1
            tq = z3.Const("tq!%d" % self.nfresh, EN.Asg)
            gN = SV(z3.Lambda([tq], coll.member(tq)), "asgset")
        elif ckind == "gen":
            gfr = Frame(coll["closure"], dict(coll["env"]))
            gN = self.eval_spec(coll["contract"].gen["total"], coll["env"], gfr)
        else:
            gN = SV(z3.If(coll[1] >= coll[0], coll[1], coll[0]), "int")
        fr.locals[gname] = gN
        self.assume(inv(gN))
        self.loop_pre.pop()

    def _over_results(self, it):
        """is this generator/filter/map drawn from a list of results?"""
        if it.kind == "genexp":
            n, fr = it.data
            try:
                src = self.eval(n.generators[0].iter, fr)
            except Unsupported:
                return False
        else:
            src = it.data[1]
        return isinstance(src, LS.ResIter) or (isinstance(src, PObj) and getattr(src, "lstore", None) is not None)

    def _preexisting(self, w, mark):
        oid = w[0] if isinstance(w, tuple) else w
        o = self._objs.get(oid)
        return o is None or getattr(o, "birth", 0) <= mark

    def loop_phase(self, ordinal, fr):
        """Each invariant loop forks the path into 'step' and 'exit'. The fork is a (non-solver) decision."""
        idx = len(self.trace)
        if idx < len(self.prefix):
            d = self.prefix[idx]
        else:
            d = True
            self.pending.append(self.trace + [False])
        self.trace.append(d)
        return "step" if d else "exit"

    # ------------------------------------------------------------------ expressions
    def eval(self, node, fr):
        m = getattr(self, "ex_" + type(node).__name__, None)
        if m is None:
            raise Unsupported("expression %s (line %d)" % (type(node).__name__, getattr(node, "lineno", 0)))
        return m(node, fr)

    def ex_Constant(self, n, fr):
        v = n.value
        if isinstance(v, float):
            return fractions.Fraction(v) if v == v and abs(v) != float("inf") else v
        return v

    def ex_Name(self, n, fr):
        return self.load_name(n.id, fr)

    def load_name(self, name, fr):
        f = fr
        while f is not None:
            if name in f.locals:
                return f.locals[name]
            f = f.closure.env if (f.closure is not None and isinstance(f.closure.env, Frame)) else None
        return self.global_name(name, fr)

    BUILTIN_FUNCS = {"defaultdict", "len", "isinstance", "type", "tuple", "sorted", "set", "abs", "max", "min", "sum", "all", "any",
                     "range", "enumerate", "map", "filter", "float", "int", "pow", "callable", "dict", "list", "str",
                     "getattr", "hasattr", "super", "bool", "round", "ceil", "log", "zip", "iter", "next", "id",
                     "prod"}        # prod: math.prod (`from math import prod`), the exact product of a list
    BUILTIN_CLASSES = {"dict", "tuple", "list", "int", "float", "str", "set", "bool", "slice"}
    EXC_NAMES = {"KeyError", "ValueError", "TypeError", "AttributeError", "ZeroDivisionError", "Exception",
                 "NotImplementedError", "IndexError", "AssertionError"}

    def global_name(self, name, fr):
        if name in self.db.classes:
            return ClassRef(self.db.classes[name])
        if name in self.db.funcs:
            mod, fd = self.db.funcs[name]
            # module-level function named `sum` in _binary_helpers shadows nothing for other modules
            if not (name == "sum" and (fr.closure is None or fr.closure.module != mod)):
                return Closure(fd, None, mod, None)
        if name in self.BUILTIN_FUNCS:
            return Builtin(name)
        if name in self.BUILTIN_CLASSES:
            return BuiltinClass(name)
        if name in ("qv", "qubovert", "np", "itertools", "warnings", "math"):
            return ModuleRef(name)
        if name in self.EXC_NAMES:
            return BuiltinClass(name)
        if name == "QUBOVertWarning":
            return ModuleRef("QUBOVertWarning")
        if name == "BOOLEAN_MODELS":
            return tuple(ClassRef(self.db.classes[c]) for c in ("QUBO", "PUBO", "PCBO", "QUBOMatrix", "PUBOMatrix"))
        if name == "SPIN_MODELS":
            return tuple(ClassRef(self.db.classes[c]) for c in ("QUSO", "PUSO", "PCSO", "QUSOMatrix", "PUSOMatrix"))
        raise Unsupported("unknown name %s" % name)

    def ex_Tuple(self, n, fr):
        out = []
        for e in n.elts:
            if isinstance(e, ast.Starred):
                v = self.eval(e.value, fr)
                c = self.concrete_iter(v)
                if c is None:
                    raise Unsupported("starred symbolic sequence")
                out.extend(c)
            else:
                out.append(self.eval(e, fr))
        return tuple(out)

    def ex_List(self, n, fr):
        return self.alloc(ListVal([self.eval(e, fr) for e in n.elts]))

    def ex_Dict(self, n, fr):
        if not n.keys:
            return self.alloc(DictVal(FO.empty(self, T.Key, T.Real)))
        keys = [self.eval(k, fr) for k in n.keys]
        vals = [self.eval(v, fr) for v in n.values]
        if len(keys) == 1 and keys[0] is None and isinstance(vals[0], ListVal) and not vals[0].items:
            return EN.new_groups(self, vals[0])      # {None: []}: table of solution lists keyed by value (C09)
        if all(isinstance(k, (int, str)) and not isinstance(k, bool) for k in keys) and \
           not all(isinstance(k, tuple) for k in keys):
            return dict(zip(keys, vals))       # small concrete lookup table (e.g. convert = {0: 1, 1: -1})
        d = self.alloc(DictVal(FO.empty(self, T.Key, T.Real)))
        for k, v in zip(keys, vals):
            self.raw_setitem(d, k, v)
        return d

    def ex_Set(self, n, fr):
        return frozenset(self.eval(e, fr) for e in n.elts)

    def alloc(self, o):
        self.nalloc = getattr(self, "nalloc", 0) + 1
        o.birth = self.nalloc
        self._objs[id(o)] = o
        return o

    def ex_UnaryOp(self, n, fr):
        v = self.eval(n.operand, fr)
        if isinstance(n.op, ast.Not):
            t = self.tobool(v)
            if isinstance(t, bool):
                return not t
            return SV(z3.Not(t), "bool")
        if isinstance(n.op, ast.USub):
            if isinstance(v, PObj):
                return self.call_method(v, "__neg__", [], {})
            if is_num(v):
                return -v
            return self.binop(ast.Sub(), 0, v)
        if isinstance(n.op, ast.UAdd):
            if isinstance(v, PObj):
                return self.call_method(v, "__pos__", [], {})
            return v
        raise Unsupported("unary op")

    def ex_BinOp(self, n, fr):
        return self.binop(n.op, self.eval(n.left, fr), self.eval(n.right, fr))

    def ex_BoolOp(self, n, fr):
        if self.spec:
            vals = []
            isand = isinstance(n.op, ast.And)
            for vn in n.values:
                t = self.tobool(self.eval(vn, fr))
                if isinstance(t, bool):
                    if t != isand:          # False in an `and`, True in an `or`: decided (short-circuit)
                        return t
                    continue
                vals.append(t)
            if not vals:
                return isand
            return SV(z3.And(*vals) if isand else z3.Or(*vals), "bool")
        last = None
        for i, vn in enumerate(n.values):
            last = self.eval(vn, fr)
            if i == len(n.values) - 1:
                return last
            t = self.branch(self.tobool(last))
            if isinstance(n.op, ast.And) and not t:
                return last
            if isinstance(n.op, ast.Or) and t:
                return last
        return last

    def ex_Compare(self, n, fr):
        left = self.eval(n.left, fr)
        acc = None
        for op, rn in zip(n.ops, n.comparators):
            right = self.eval(rn, fr)
            c = self.compare(op, left, right)
            if len(n.ops) == 1:
                return c if isinstance(c, bool) else SV(c, "bool")
            if self.spec:
                c = z3.BoolVal(c) if isinstance(c, bool) else c
                acc = c if acc is None else z3.And(acc, c)
            else:
                if not self.branch(c):
                    return False
            left = right
        return SV(acc, "bool") if self.spec else True

    def ex_IfExp(self, n, fr):
        c = self.tobool(self.eval(n.test, fr))
        if isinstance(c, bool):
            return self.eval(n.body if c else n.orelse, fr)
        if self.spec:
            a, b = self.eval(n.body, fr), self.eval(n.orelse, fr)
            if isinstance(a, SV) and a.t == "bool" or isinstance(b, SV) and b.t == "bool" or isinstance(a, bool):
                ta, tb = self.tobool(a), self.tobool(b)
                ta = z3.BoolVal(ta) if isinstance(ta, bool) else ta
                tb = z3.BoolVal(tb) if isinstance(tb, bool) else tb
                return SV(z3.If(c, ta, tb), "bool")
            if is_intlike(a) and is_intlike(b):
                return SV(z3.If(c, zint(a), zint(b)), "int")      # keep integer sort (is_int reasoning)
            return SV(z3.If(c, zreal(a), zreal(b)), "real")
        return self.eval(n.body if self.branch(c) else n.orelse, fr)

    def ex_Lambda(self, n, fr):
        fd = ast.FunctionDef(name="<lambda>", args=n.args, body=[ast.Return(value=n.body)], decorator_list=[],
                             returns=None, type_comment=None, lineno=n.lineno, col_offset=n.col_offset)
        return Closure(fd, fr, fr.closure.module if fr.closure else "?", None)

    def ex_Attribute(self, n, fr):
        return self.getattr(self.eval(n.value, fr), n.attr)

    def ex_Subscript(self, n, fr):
        obj = self.eval(n.value, fr)
        if isinstance(n.slice, ast.Slice):
            return self.getslice(obj, n.slice, fr)
        return self.getitem(obj, self.eval_index(n.slice, fr))

    def eval_index(self, sl, fr):
        if isinstance(sl, ast.Slice):
            return SV(None, "slice")
        return self.eval(sl, fr)

    def getslice(self, obj, sl, fr):
        lo = self.eval(sl.lower, fr) if sl.lower is not None else None
        hi = self.eval(sl.upper, fr) if sl.upper is not None else None
        if sl.step is not None:
            raise Unsupported("slice step")
        if isinstance(obj, (tuple, list, str)) and all(x is None or isinstance(x, int) for x in (lo, hi)):
            return obj[lo:hi]
        if isinstance(obj, ListVal) and all(x is None or isinstance(x, int) for x in (lo, hi)):
            return self.alloc(ListVal(obj.items[lo:hi]))
        if isinstance(obj, SV) and obj.t == "key":
            if lo == 1 and hi is None:
                if not self.spec and not self.branch(z3.Length(obj.e) >= 1):
                    return ()
                return SV(self.facts.tail(obj.e), "key")
            return self._key_slice(obj, lo, hi)
        raise Unsupported("slice of %s" % type(obj).__name__)

    def _key_slice(self, k, lo, hi):
        """k[lo:hi] of a symbolic tuple of labels, python semantics (negative bounds count from the end, bounds are
        clamped); stated as a decomposition k == before + result + after, so that products and member sets split"""
        n = z3.Length(k.e)

        def bound(b, default):
            if b is None:
                return default
            e = zint(b)
            return z3.If(e < 0, z3.If(n + e < 0, z3.IntVal(0), n + e), z3.If(e > n, n, e))
        a = bound(lo, z3.IntVal(0))
        b = bound(hi, n)
        b2 = z3.If(b < a, a, b)
        before, res, after = self.fresh("key", "sl_before"), self.fresh("key", "sl"), self.fresh("key", "sl_after")
        left = self.facts.concat(before.e, res.e)
        self.facts.add(z3.And(k.e == self.facts.concat(left, after.e), z3.Length(before.e) == a,
                              z3.Length(res.e) == b2 - a))
        return res

    def getitem(self, obj, idx):
        if isinstance(obj, PObj):
            if obj.store is not None or self.db.find_method(obj.cls, "__getitem__")[1] is not None \
               or getattr(obj, "lstore", None) is not None:
                return self.call_method(obj, "__getitem__", [idx], {})
        if isinstance(obj, DictVal):
            ver = self.store_of(obj)
            kk = self.as_dictkey(ver, idx)
            if ver.ksort == T.Key and ver.vsort == T.Int:
                from .specfuncs import cons_note_key
                cons_note_key(self, kk)
            if not self.spec and not self.branch(z3.Select(ver.dom, kk)):
                raise PyExc("KeyError")
            return SV(z3.Select(ver.val, kk), "real" if ver.vsort == T.Real else "int")
        if isinstance(obj, Ver):
            kk = self.as_dictkey(obj, idx)
            return SV(z3.Select(obj.val, kk), "real" if obj.vsort == T.Real else "int")
        if isinstance(obj, OpaqueTable):
            return self.fresh("int", "freq")
        if isinstance(obj, EN.Groups):
            return EN.groups_getitem(self, obj, idx)
        if isinstance(obj, SO.SolVal) and obj.view is None:
            return SO.getitem(self, obj, idx)
        if isinstance(obj, dict):
            if isinstance(idx, SV):
                # concrete table indexed by a symbolic number: if-then-else chain; KeyError when no key matches
                keys = list(obj.keys())
                conds = [self.equals(idx, k) for k in keys]
                anyc = z3.Or(*[c if not isinstance(c, bool) else z3.BoolVal(c) for c in conds])
                if not self.spec and not self.branch(anyc):
                    raise PyExc("KeyError")
                e = zreal(obj[keys[-1]])
                for k, c in list(zip(keys, conds))[-2::-1]:
                    e = z3.If(c, zreal(obj[k]), e)
                allint = all(isinstance(v, int) for v in obj.values())
                return SV(z3.ToInt(e), "int") if allint else SV(e, "real")
            if idx not in obj:
                raise PyExc("KeyError")
            return obj[idx]
        if isinstance(obj, Assoc):
            conds = [self.equals(k, idx) for k, _ in obj.pairs]
            zc = [c if not isinstance(c, bool) else z3.BoolVal(c) for c in conds]
            if not self.spec and not self.branch(z3.Or(*zc) if zc else z3.BoolVal(False)):
                raise PyExc("KeyError")
            vals = [v for _, v in obj.pairs]
            res = vals[0]
            for c, v in list(zip(zc, vals))[1:]:          # later entries win, as in a dict built left to right
                res = self.ite_value(c, v, res)
            return res
        if isinstance(obj, ItemsView):
            # tuple(d.keys())[i] / tuple(d.values())[i] / tuple(d.items())[i]: the i-th item in iteration order
            if not (obj.snapshot and isinstance(idx, int) and 0 <= idx <= 3):
                raise Unsupported("subscript of a dict view")
            from . import folds as FO
            sz = FO.fold(self, obj.ver, "size")
            if not self.spec and not self.branch(sz > idx):
                raise PyExc("IndexError")
            k, v = FO.nth_item(self, obj.ver, idx)
            ks = SV(k, "key" if obj.ver.ksort == T.Key else "label")
            vs = SV(v, "real" if obj.ver.vsort == T.Real else "int")
            return {"keys": ks, "values": vs, "items": (ks, vs)}[obj.mode]
        if isinstance(obj, (tuple, list, str)):
            if isinstance(idx, int):
                if not -len(obj) <= idx < len(obj):
                    raise PyExc("IndexError")
                return obj[idx]
            raise Unsupported("symbolic index into a concrete sequence")
        if isinstance(obj, ListVal):
            if isinstance(idx, int):
                if not -len(obj.items) <= idx < len(obj.items):
                    raise PyExc("IndexError")
                return obj.items[idx]
            raise Unsupported("symbolic index into list")
        if isinstance(obj, SV) and obj.t == "key":
            if isinstance(idx, int) and idx >= 0:
                if not self.spec and not self.branch(z3.Length(obj.e) > idx):
                    raise PyExc("IndexError")
                e = obj.e[idx]
                self.facts.label(e)
                return SV(e, "label")
            if isinstance(idx, SV) and idx.t == "int":
                n = z3.Length(obj.e)
                i = z3.If(idx.e < 0, idx.e + n, idx.e)
                if not self.spec and not self.branch(z3.And(i >= 0, i < n)):
                    raise PyExc("IndexError")
                e = obj.e[i]
                self.facts.label(e)
                return SV(e, "label")
            raise Unsupported("key index")
        if isinstance(obj, AssignVal):
            i = self.as_label(idx)
            self.facts.label(i)
            if obj.kind == "bool":
                return SV(T.xval(i), "real")
            if obj.kind == "spin":
                return SV(T.zval(i), "real")
            return SV(T.aval(i), "real")
        raise Unsupported("subscript of %s" % type(obj).__name__)

    def ite_value(self, c, a, b):
        if isinstance(a, SV) and isinstance(b, SV) and a.t == b.t and a.e.sort() == b.e.sort():
            return SV(z3.If(c, a.e, b.e), a.t)
        if (isinstance(a, SV) or is_num(a)) and (isinstance(b, SV) or is_num(b)):
            return SV(z3.If(c, zreal(a), zreal(b)), "real")
        raise Unsupported("if-then-else of %s / %s" % (type(a).__name__, type(b).__name__))

    def setitem(self, obj, idx, v):
        if isinstance(obj, PObj):
            return self.call_method(obj, "__setitem__", [idx, v], {})
        if isinstance(obj, DictVal):
            return self.raw_setitem(obj, idx, v)
        if isinstance(obj, OpaqueTable):
            if self.frame_writes is not None:
                self.frame_writes.add(id(obj))
            return
        if isinstance(obj, ListVal) and isinstance(idx, int):
            if not -len(obj.items) <= idx < len(obj.items):
                raise PyExc("IndexError")
            if self.frame_writes is not None:
                self.frame_writes.add(id(obj))
            obj.items[idx] = v
            return
        raise Unsupported("item assignment on %s" % type(obj).__name__)

    # ------------------------------------------------------------------ attributes
    def getattr(self, obj, name):
        if isinstance(obj, PObj):
            if name in obj.attrs:
                return self.get_attr_raw(obj, name)
            if name == "__class__":
                return ClassRef(obj.cls)
            k, fd, kind = self.db.find_method(obj.cls, name)
            if fd is not None:
                if kind == "property":
                    return self.call_closure(Closure(fd, None, k.module, k), [obj], {}, self_obj=obj, defining_cls=k)
                if kind == "static":
                    return Closure(fd, None, k.module, k)
                if kind == "class":
                    return BoundMethod(ClassRef(obj.cls), Closure(fd, None, k.module, k), k)
                return BoundMethod(obj, Closure(fd, None, k.module, k), k)
            if k is not None and kind == "builtin":
                import builtins as _pybi
                if hasattr(getattr(_pybi, k, object), name):
                    return Builtin(k + "." + name, recv=obj)
            raise PyExc("AttributeError", name)
        if isinstance(obj, ClassRef):
            if name == "__name__":
                return obj.cls.name
            k, fd, kind = self.db.find_method(obj.cls, name)
            if fd is None:
                raise Unsupported("class attribute %s.%s" % (obj.cls.name, name))
            if kind == "static":
                return Closure(fd, None, k.module, k)
            if kind == "class":
                return BoundMethod(obj, Closure(fd, None, k.module, k), k)
            return Closure(fd, None, k.module, k)      # unbound function: Base.method(self, ...)
        if isinstance(obj, SuperRef):
            k, fd, kind = self.db.find_method(obj.obj.cls if isinstance(obj.obj, PObj) else obj.obj.cls, name, after=obj.after_cls)
            if fd is not None:
                return BoundMethod(obj.obj, Closure(fd, None, k.module, k), k)
            if kind == "builtin":
                return Builtin(k + "." + name, recv=obj.obj)
            raise PyExc("AttributeError", name)
        if isinstance(obj, ModuleRef):
            if obj.name in ("qv", "qubovert"):
                if name in ("utils", "sat", "sim"):
                    return ModuleRef("qv")
                return self.global_name(name, Frame(None, {}))
            if obj.name == "QUBOVertWarning" and name == "warn":
                return Builtin("warn")
            return Builtin(obj.name + "." + name)
        if isinstance(obj, DictVal) and name not in DICT_ATTRS:
            raise PyExc("AttributeError", name)          # a plain dict has no such attribute
        if isinstance(obj, (DictVal, ListVal, SetVal, ItemsView, tuple, list, dict, str, frozenset, AssignVal, SeqIter,
                            EN.Groups, EN.GroupRef, SO.SolVal)) or (isinstance(obj, SV) and obj.t in ("key", "cobj")):
            return Builtin("m." + name, recv=obj)
        if isinstance(obj, BuiltinClass) or (isinstance(obj, Builtin) and obj.recv is None and obj.name in self.BUILTIN_CLASSES):
            return Builtin(obj.name + "." + name)
        if self._isres(obj):
            if name == "value":
                e = obj.rid if isinstance(obj, LS.OptRid) else obj.e
                if isinstance(obj, LS.OptRid) and not self.spec:
                    if self.branch(obj.isnone):
                        raise PyExc("AttributeError", "NoneType has no attribute value")
                return SV(LS.rval(e), "real")
            if name in ("state", "spin"):
                return Opaque("result." + name)
            raise Unsupported("attribute %s of a result" % name)
        if isinstance(obj, Opaque):
            return Builtin("opaque")
        if isinstance(obj, SV) and name in ("subs", "simplify"):
            raise PyExc("AttributeError", name)
        if is_num(obj) and name in ("subs", "simplify"):
            raise PyExc("AttributeError", name)
        raise Unsupported("attribute %s of %s" % (name, type(obj).__name__))

    def setattr(self, obj, name, v):
        if isinstance(obj, PObj):
            k, fd, kind = self.db.find_method(obj.cls, name + ".setter")
            if fd is not None:
                return self.call_closure(Closure(fd, None, k.module, k), [obj, v], {}, self_obj=obj, defining_cls=k)
            self.write_attr(obj, name, v)
            return
        raise Unsupported("attribute assignment on %s" % type(obj).__name__)

    # ------------------------------------------------------------------ calls
    def ex_Call(self, n, fr):
        # super() needs the frame
        if isinstance(n.func, ast.Name) and n.func.id == "super" and "super" not in fr.locals:
            if n.args:
                # super(self.__class__, self): as written in the code base this resolves relative to type(self)
                clsv = self.eval(n.args[0], fr)
                obj = self.eval(n.args[1], fr)
                return SuperRef(obj, clsv.cls)
            return SuperRef(fr.self_obj, fr.defining_cls)
        if self.spec and isinstance(n.func, ast.Name) and n.func.id == "pre" and getattr(self, "loop_pre", None):
            # value of an expression at the entry of the innermost invariant loop
            plocals, psnap = self.loop_pre[-1]
            saved = self.old
            self.old = psnap
            try:
                pf = Frame(fr.closure, dict(plocals), fr.self_obj, fr.defining_cls)
                for k, v in fr.locals.items():
                    if isinstance(v, Builtin) and v.name.startswith("spec."):
                        pf.locals.setdefault(k, v)
                return self._freeze(self.eval(n.args[0], pf))
            finally:
                self.old = saved
        if self.spec and isinstance(n.func, ast.Name) and n.func.id == "old":
            saved = self.old
            st = getattr(self, "entry_snapshot_stack", None)
            self.old = st[-1] if st else None
            try:
                return self._freeze(self.eval(n.args[0], fr))
            finally:
                self.old = saved
        fn = self.eval(n.func, fr)
        args, kwargs = [], {}
        for a in n.args:
            if isinstance(a, ast.Starred):
                v = self.eval(a.value, fr)
                c = self.concrete_iter(v)
                if c is None:
                    if isinstance(v, SV) and v.t == "key" and len(n.args) == 1:
                        args.append(StarKey(v))      # f(*key): the labels of a symbolic key as the only positional arguments
                        continue
                    raise Unsupported("*args with symbolic sequence")
                args.extend(c)
            elif isinstance(a, ast.GeneratorExp):
                args.append(self.make_genexp(a, fr))
            else:
                args.append(self.eval(a, fr))
        for kw in n.keywords:
            if kw.arg is None:
                v = self.eval(kw.value, fr)
                if isinstance(v, dict):
                    kwargs.update(v)
                else:
                    raise Unsupported("**kwargs with non-concrete mapping")
            else:
                kwargs[kw.arg] = self.eval(kw.value, fr)
        return self.call(fn, args, kwargs, fr)

    def _freeze(self, v):
        """a mutable container read under old(...) / pre(...) is returned as its (immutable) old value"""
        if isinstance(v, SetVal):
            if self.old is not None and id(v) in self.old:
                return SV(self.old[id(v)][0], "lset")
            return SV(v.mem, "lset")
        if isinstance(v, DictVal):
            return self.store_of(v)
        return v

    def call(self, fn, args, kwargs, fr=None):
        if any(isinstance(x, StarKey) for x in args) and not isinstance(fn, Closure):
            raise Unsupported("*key arguments to something that is not a plain function")
        if isinstance(fn, Closure):
            return self.call_closure(fn, args, kwargs)
        if isinstance(fn, BoundMethod):
            recv = fn.recv
            return self.call_closure(fn.func, [recv] + list(args), kwargs,
                                     self_obj=recv, defining_cls=fn.defining_cls)
        if isinstance(fn, Builtin):
            from . import builtins as B
            return B.call_builtin(self, fn, args, kwargs, fr)
        if isinstance(fn, ClassRef):
            return self.instantiate(fn.cls, args, kwargs)
        if isinstance(fn, EN.AbstractFn):
            if kwargs:
                raise Unsupported("keyword arguments to an abstract function")
            return EN.call_abstract(self, fn, args)
        if isinstance(fn, BuiltinClass):
            from . import builtins as B
            return B.call_builtin(self, Builtin(fn.name), args, kwargs, fr)
        raise Unsupported("call of %r" % (fn,))

    def call_method(self, obj, name, args, kwargs):
        k, fd, kind = self.db.find_method(obj.cls, name)
        if fd is None:
            if kind == "builtin":
                from . import builtins as B
                return B.call_builtin(self, Builtin(k + "." + name, recv=obj), args, kwargs, None)
            raise PyExc("AttributeError", name)
        return self.call_closure(Closure(fd, None, k.module, k), [obj] + list(args), kwargs, self_obj=obj, defining_cls=k)

    def bind_args(self, fd, args, kwargs, cl):
        a = fd.args
        params = [p.arg for p in a.posonlyargs + a.args]
        locals_ = {}
        args = list(args)
        starkey = None
        if len(args) == 1 and isinstance(args[0], StarKey):
            if params or a.vararg is None:
                raise Unsupported("f(*key) where f has positional parameters")
            starkey, args = args[0].key, []
        if len(args) > len(params) and a.vararg is None:
            raise PyExc("TypeError", "too many arguments")
        for p, v in zip(params, args):
            locals_[p] = v
        rest = args[len(params):]
        if a.vararg is not None:
            locals_[a.vararg.arg] = tuple(rest) if starkey is None else starkey
        kwargs = dict(kwargs)
        for p in params[len(args):] + [x.arg for x in a.kwonlyargs]:
            if p in kwargs:
                locals_[p] = kwargs.pop(p)
        # defaults
        defaults = a.defaults
        dparams = params[len(params) - len(defaults):] if defaults else []
        dframe = Frame(cl, {})
        for p, d in zip(dparams, defaults):
            if p not in locals_:
                locals_[p] = self.eval(d, dframe)
        for p, d in zip([x.arg for x in a.kwonlyargs], a.kw_defaults):
            if p not in locals_ and d is not None:
                locals_[p] = self.eval(d, dframe)
        if a.kwarg is not None:
            locals_[a.kwarg.arg] = kwargs
            kwargs = {}
        if kwargs:
            raise PyExc("TypeError", "unexpected keyword %s" % list(kwargs))
        for p in params:
            if p not in locals_:
                raise PyExc("TypeError", "missing argument %s" % p)
        return locals_

    def call_closure(self, cl, args, kwargs, self_obj=None, defining_cls=None):
        if defining_cls is None:
            defining_cls = cl.cls
        qn = cl.qualname()
        if getattr(cl.fdef, "_qvc_rebound", None):
            raise Unsupported("%s: %s - the body of the def is not what runs" % (qn, cl.fdef._qvc_rebound))
        locals_ = self.bind_args(cl.fdef, args, kwargs, cl)
        if self_obj is None and cl.cls is not None and isinstance(locals_.get("self"), PObj):
            self_obj = locals_["self"]
        c = self.contracts.get(qn)
        is_target_top = (self.target is not None and self.target.qualname == qn and not self.call_stack)
        if c is not None and c.gen is None and not is_target_top and c.usable_at_call(self, locals_):
            self.used_contracts.add(qn)
            return self.apply_contract(c, locals_, cl)
        if self._is_generator(cl.fdef):
            if c is not None and c.gen is not None and not is_target_top:
                self.used_contracts.add(qn)
                return self.apply_gen_contract(c, locals_, cl)
            from . import builtins as B
            return B.generator_summary(self, cl, locals_)
        if qn in [x for x in self.call_stack]:
            raise Unsupported("recursion without a contract: %s" % qn)
        if len(self.call_stack) > 40:
            raise Unsupported("call depth")
        if self.call_stack or not is_target_top:
            self.inlined.add(qn)
        fr = Frame(cl, locals_, self_obj, defining_cls)
        self.call_stack.append(qn)
        try:
            self.exec_block(cl.fdef.body, fr)
            return None
        except _Return as r:
            return r.value
        finally:
            self.call_stack.pop()

    def _is_generator(self, fd):
        for node in ast.walk(fd):
            if isinstance(node, (ast.Yield, ast.YieldFrom)):
                # not inside a nested def
                return True
        return False

    def instantiate(self, cls, args, kwargs):
        obj = self.alloc(PObj(cls))
        if self.db.is_subclass(cls, "dict"):
            obj.store = self.alloc(DictVal(FO.empty(self, T.Key, T.Real), pyclass=cls.name))
        if self.db.is_subclass(cls, "list"):
            obj.lstore = self.alloc(LS.LHolder(LS.empty(self)))
        if cls.name == "AnnealResult":
            # abstract result object: an id with rval(id) == value
            value = args[1] if len(args) > 1 else kwargs.get("value")
            return LS.new_rid(self, "res", zreal(value))
        c = self.contracts.get("class:" + cls.name)
        if c is not None and c.usable_at_call(self, {"args": tuple(args), "kwargs": kwargs}):
            self.used_contracts.add("class:" + cls.name)
            return self.apply_ctor_contract(c, obj, args, kwargs)
        k, fd, kind = self.db.find_method(cls, "__init__")
        if fd is not None:
            self.call_closure(Closure(fd, None, k.module, k), [obj] + list(args), kwargs, self_obj=obj, defining_cls=k)
        return obj

    # ------------------------------------------------------------------ model-object operators
    OPNAMES = {ast.Add: "add", ast.Sub: "sub", ast.Mult: "mul", ast.Div: "truediv", ast.Pow: "pow", ast.FloorDiv: "floordiv"}

    def obj_binop(self, op, a, b):
        nm = self.OPNAMES.get(type(op))
        if nm is None:
            raise Unsupported("operator on objects")
        if isinstance(a, PObj):
            return self.call_method(a, "__%s__" % nm, [b], {})
        return self.call_method(b, "__r%s__" % nm, [a], {})

    def obj_inplace(self, op, a, b):
        nm = self.OPNAMES.get(type(op))
        k, fd, kind = self.db.find_method(a.cls, "__i%s__" % nm)
        if fd is not None:
            return self.call_method(a, "__i%s__" % nm, [b], {})
        return self.obj_binop(op, a, b)

    # ------------------------------------------------------------------ comprehensions
    def make_genexp(self, n, fr):
        return SeqIter("genexp", (n, fr))

    def ex_GeneratorExp(self, n, fr):
        return self.make_genexp(n, fr)

    def ex_ListComp(self, n, fr):
        from . import builtins as B
        return B.eval_comprehension(self, n, fr, "list")

    def _asg_comprehension(self, n, fr):
        """{mapping[i]: v for i, v in enumerate(t)} with t a tuple of the enumeration: the assignment built from t"""
        if len(n.generators) != 1:
            return None
        g = n.generators[0]
        it = g.iter
        if not (isinstance(it, ast.Call) and isinstance(it.func, ast.Name) and it.func.id == "enumerate" and
                len(it.args) == 1 and not it.keywords and not g.ifs):
            return None
        src = self.eval(it.args[0], fr)
        if not (isinstance(src, SV) and src.t == "asgtuple"):
            return None
        tg = g.target
        if not (isinstance(tg, ast.Tuple) and len(tg.elts) == 2 and all(isinstance(e, ast.Name) for e in tg.elts)):
            raise Unsupported("assignment comprehension: target shape")
        i, v = tg.elts[0].id, tg.elts[1].id
        if not (isinstance(n.value, ast.Name) and n.value.id == v and isinstance(n.key, ast.Subscript) and
                isinstance(n.key.slice, ast.Name) and n.key.slice.id == i):
            raise Unsupported("assignment comprehension: not {mapping[i]: v for i, v in enumerate(t)}")
        m = self.eval(n.key.value, fr)
        if not isinstance(m, (DictVal, dict, Assoc)):
            raise Unsupported("assignment comprehension: mapping is %s" % type(m).__name__)
        return SV(src.e, "asg")

    def _sol_comprehension(self, n, fr):
        """{k: convert[v] for k, v in z.items()}  and  {rmap[i]: z[i] for i in range(N)}  over an indexed solution z"""
        if len(n.generators) != 1 or n.generators[0].ifs:
            return None
        g = n.generators[0]
        src = self.eval(g.iter, fr)
        if isinstance(src, SO.SolVal) and src.view == "items":
            tg = g.target
            if not (isinstance(tg, ast.Tuple) and len(tg.elts) == 2 and all(isinstance(e, ast.Name) for e in tg.elts)
                    and isinstance(n.key, ast.Name) and n.key.id == tg.elts[0].id):
                raise Unsupported("dict comprehension over a solution: shape")
            tb = SO.table_of(self, n.value, tg.elts[1].id, fr)
            if tb is None:
                raise Unsupported("dict comprehension over a solution: value is not a table lookup")
            return SO.mapped(self, src, tb[0], tb[1], "dict")
        if isinstance(src, ItemsView) and src.mode == "items" and src.ver.ksort == T.Int and src.ver.vsort == T.Label \
                and isinstance(g.target, ast.Tuple) and len(g.target.elts) == 2 \
                and all(isinstance(e, ast.Name) for e in g.target.elts) and isinstance(n.key, ast.Name) \
                and n.key.id == g.target.elts[1].id and isinstance(n.value, ast.Subscript) \
                and isinstance(n.value.slice, ast.Name) and n.value.slice.id == g.target.elts[0].id:
            sol = self.eval(n.value.value, fr)
            if isinstance(sol, SO.SolVal) and sol.view is None:
                # {v: solution[i] for i, v in reverse_mapping.items()}
                return SO.relabelled_items(self, src.owner if src.owner is not None else src.ver, sol)
        isrange = isinstance(src, range) or (isinstance(src, SeqIter) and src.kind == "range" and len(src.data) == 1)
        if isrange and isinstance(g.target, ast.Name) and isinstance(n.key, ast.Subscript) and \
                isinstance(n.value, ast.Subscript) and isinstance(n.key.slice, ast.Name) and \
                isinstance(n.value.slice, ast.Name) and n.key.slice.id == g.target.id == n.value.slice.id:
            sol = self.eval(n.value.value, fr)
            if isinstance(sol, SO.SolVal) and sol.view is None:
                rmap = self.eval(n.key.value, fr)
                if not isinstance(rmap, DictVal):
                    raise Unsupported("relabelling comprehension: mapping is %s" % type(rmap).__name__)
                if isinstance(src, range):
                    if src.start != 0 or src.step != 1:
                        raise Unsupported("relabelling comprehension: range shape")
                    N = src.stop
                else:
                    N = src.data[0]
                return SO.relabelled(self, rmap, sol, N)
        return None

    def ex_DictComp(self, n, fr):
        r = self._asg_comprehension(n, fr)
        if r is not None:
            return r
        r = self._sol_comprehension(n, fr)
        if r is not None:
            return r
        from . import builtins as B
        return B.eval_comprehension(self, n, fr, "dict")

    def ex_SetComp(self, n, fr):
        from . import builtins as B
        if len(n.generators) == 1:
            src = self.eval(n.generators[0].iter, fr)
            if isinstance(src, AbstractKeySet):
                return AbstractKeySet()      # {f(p) for p in pairs}: some set of keys (f is not looked at)
        return B.eval_comprehension(self, n, fr, "set")

    # ------------------------------------------------------------------ specification expressions
    def eval_spec(self, src, env, fr=None, old=None):
        """evaluate a contract expression (string) to a z3 Bool / value, without branching or heap writes"""
        from . import specfuncs as SF
        node = src if isinstance(src, ast.AST) else ast.parse(src, mode="eval").body
        cl = fr.closure if fr is not None else None
        sf = Frame(cl, dict(env), fr.self_obj if fr else None, fr.defining_cls if fr else None)
        for name, f in SF.SPEC_FUNCS.items():
            sf.locals.setdefault(name, Builtin("spec." + name))
        self.spec += 1
        saved_old = self.old
        if old is not None:
            self.old = old
        try:
            v = self.eval(node, sf)
        finally:
            self.spec -= 1
            self.old = saved_old
        return v

    def spec_bool(self, src, env, fr=None):
        v = self.eval_spec(src, env, fr)
        t = self.tobool(v)
        return z3.BoolVal(t) if isinstance(t, bool) else t
