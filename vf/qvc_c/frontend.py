"""C front end of qvc_c.

On every run the current .c file is handed to clang (``-Xclang -ast-dump=json -fsyntax-only``); nothing
is cached and no copy of the code is kept here.  The JSON AST is *validated* against a whitelist of exactly
the constructs the annealing kernels use (node kinds, cast kinds, operators, types).  Anything outside the
whitelist raises ``Unsupported`` for that function: the function "leaves reach" and gets no verdict.

The verification-condition generator (vcgen.py) then walks the validated clang nodes directly, so what is
verified is what clang parsed, including every implicit conversion clang made explicit.
"""
import hashlib
import json
import os
import re
import subprocess

CLANG = os.environ.get("QVC_C_CLANG", "clang")


class Unsupported(Exception):
    """construct outside the lowered subset: the function leaves reach (never a verdict)"""

    def __init__(self, msg, node=None, unit=None):
        line = None
        if node is not None and unit is not None:
            try:
                line = unit.line_of(node)
            except Exception:
                line = None
        Exception.__init__(self, ("line %s: " % line if line else "") + msg)


# ---------------------------------------------------------------- types

_TYPEDEFS = {"time_t": "long", "uint32_t": "uint", "uint64_t": "ulong", "intptr_t": "long", "size_t": "ulong",
             "rng_t": "opaque", "pcg32_random_t": "opaque", "struct pcg_state_setseq_64": "opaque"}
_BASE = {"int": "int", "long": "long", "double": "double", "unsigned int": "uint", "unsigned long": "ulong",
         "void": "void", "long int": "long", "unsigned": "uint"}


def ctype_of_str(q):
    """normalise a clang qualType string to one of: int long double uint ulong void opaque ptr:<t>"""
    q = q.strip()
    q = re.sub(r"\bconst\b", "", q).strip()
    if q.endswith("*"):
        return "ptr:" + ctype_of_str(q[:-1])
    if q in _BASE:
        return _BASE[q]
    if q in _TYPEDEFS:
        return _TYPEDEFS[q]
    raise Unsupported("type '%s' is outside the lowered subset" % q)


def ctype(node):
    t = node.get("type") or {}
    q = t.get("desugaredQualType") or t.get("qualType")
    if q is None:
        raise Unsupported("node %s has no type" % node.get("kind"))
    try:
        return ctype_of_str(q)
    except Unsupported:
        # desugared form may be a struct name we do not know while the sugared one is a known typedef
        return ctype_of_str(t.get("qualType"))


SIGNED = ("int", "long")
UNSIGNED = ("uint", "ulong")
INTEGRAL = SIGNED + UNSIGNED


def target_model():
    """integer widths of the clang target (read from clang itself, not assumed)"""
    out = subprocess.run([CLANG, "-dM", "-E", "-x", "c", "/dev/null"], capture_output=True, text=True, check=True).stdout
    m = dict(re.findall(r"#define (__\w+__) (\S+)", out))
    sz = {"int": int(m["__SIZEOF_INT__"]), "long": int(m["__SIZEOF_LONG__"]), "double": int(m["__SIZEOF_DOUBLE__"]),
          "ptr": int(m["__SIZEOF_POINTER__"]), "uint": int(m["__SIZEOF_INT__"]), "ulong": int(m["__SIZEOF_LONG__"]),
          "size_t": int(m["__SIZEOF_SIZE_T__"])}
    return sz


def int_range(t, sizes):
    bits = 8 * sizes[t]
    if t in SIGNED:
        return -(2 ** (bits - 1)), 2 ** (bits - 1) - 1
    return 0, 2 ** bits - 1


def sizeof_ctype(t, sizes):
    if t.startswith("ptr:"):
        return sizes["ptr"]
    if t in sizes:
        return sizes[t]
    raise Unsupported("sizeof(%s)" % t)


# ---------------------------------------------------------------- whitelist

_STMT_KINDS = {"CompoundStmt", "DeclStmt", "ForStmt", "IfStmt", "ReturnStmt", "NullStmt"}
_EXPR_KINDS = {"BinaryOperator", "CompoundAssignOperator", "UnaryOperator", "ArraySubscriptExpr", "ImplicitCastExpr",
               "CStyleCastExpr", "ParenExpr", "DeclRefExpr", "IntegerLiteral", "FloatingLiteral", "CallExpr",
               "ConditionalOperator", "UnaryExprOrTypeTraitExpr"}
_CAST_KINDS = {"LValueToRValue", "IntegralCast", "IntegralToFloating", "FloatingCast", "FunctionToPointerDecay",
               "NoOp", "BitCast", "NullToPointer", "PointerToIntegral"}
_BINOPS = {"=", "+", "-", "*", "<", "<=", ">", ">=", "==", "!=", "&&", "||", "/", "%"}
_COMPOUND = {"+=", "-=", "*="}
_UNOPS = {"++", "--", "-", "!", "&"}


def _off(p):
    if "offset" in p:
        return p["offset"]
    for k in ("expansionLoc", "spellingLoc"):
        if k in p and "offset" in p[k]:
            return p[k]["offset"]
    return None


def node_begin(n):
    return _off(n["range"]["begin"])


def node_end(n):
    e = n["range"]["end"]
    o = _off(e)
    tl = e.get("tokLen") or e.get("expansionLoc", {}).get("tokLen") or 1
    return o + tl


class Loop:
    def __init__(self, node, ordinal, header, line):
        self.node, self.ordinal, self.header, self.line = node, ordinal, header, line


class Func:
    def __init__(self, name, node, unit):
        self.name, self.node, self.unit = name, node, unit
        self.params = [(c["name"], ctype(c)) for c in node.get("inner", []) if c["kind"] == "ParmVarDecl"]
        self.ret = ctype_of_str(node["type"]["qualType"].split("(")[0])
        self.body = [c for c in node["inner"] if c["kind"] == "CompoundStmt"][0]
        self.text = unit.src[node_begin(node):node_end(node)]
        self.sha = hashlib.sha256(self.text.encode()).hexdigest()[:16]
        self.loops = []
        self.unsupported = None
        try:
            self._validate(self.body)
        except Unsupported as e:
            self.unsupported = str(e)

    # whitelist check + loop numbering (source order, static)
    def _validate(self, n):
        if not isinstance(n, dict) or "kind" not in n:
            return
        k = n["kind"]
        u = self.unit
        if k in _STMT_KINDS:
            if k == "ForStmt":
                inner = n["inner"]
                if len(inner) != 5:
                    raise Unsupported("for statement of unexpected shape", n, u)
                if inner[1]:
                    raise Unsupported("condition variable in for", n, u)
                if not inner[2]:
                    raise Unsupported("for without condition", n, u)
                hdr = u.src[node_begin(n):node_begin(inner[4])]
                hdr = re.sub(r"\s+", " ", hdr).strip()
                n["_loop"] = len(self.loops)
                self.loops.append(Loop(n, len(self.loops), hdr, u.line_of(n)))
            if k == "DeclStmt":
                for d in n["inner"]:
                    if d["kind"] != "VarDecl":
                        raise Unsupported("declaration of kind %s" % d["kind"], n, u)
                    ctype(d)
                    if d.get("init") not in (None, "c"):
                        raise Unsupported("initialiser style %s" % d.get("init"), n, u)
                    for c in d.get("inner", []):
                        self._validate(c)
                return
        elif k in _EXPR_KINDS:
            if k in ("ImplicitCastExpr", "CStyleCastExpr"):
                if n.get("castKind") not in _CAST_KINDS:
                    raise Unsupported("cast kind %s" % n.get("castKind"), n, u)
            if k == "BinaryOperator" and n["opcode"] not in _BINOPS:
                raise Unsupported("binary operator %s" % n["opcode"], n, u)
            if k == "CompoundAssignOperator" and n["opcode"] not in _COMPOUND:
                raise Unsupported("compound assignment %s" % n["opcode"], n, u)
            if k == "UnaryOperator" and n["opcode"] not in _UNOPS:
                raise Unsupported("unary operator %s" % n["opcode"], n, u)
            if k == "UnaryExprOrTypeTraitExpr" and n.get("name") != "sizeof":
                raise Unsupported("type trait %s" % n.get("name"), n, u)
            if k == "DeclRefExpr" and n["referencedDecl"]["kind"] not in ("VarDecl", "ParmVarDecl", "FunctionDecl"):
                raise Unsupported("reference to %s" % n["referencedDecl"]["kind"], n, u)
            if k not in ("CallExpr",) and "type" in n and k != "DeclRefExpr":
                q = n["type"].get("qualType", "")
                if "(" not in q:
                    try:
                        ctype(n)
                    except Unsupported as e:
                        raise Unsupported(str(e), n, u)
        else:
            raise Unsupported("construct %s is outside the lowered subset" % k, n, u)
        for c in n.get("inner", []):
            self._validate(c)


class Unit:
    """one translation unit, parsed now"""

    def __init__(self, path, include_dirs=()):
        self.path = path
        self.src_bytes = open(path, "rb").read()
        # clang offsets are byte offsets; the kernels are ASCII, but be exact
        self.src = self.src_bytes.decode("latin-1")
        self.sha = hashlib.sha256(self.src_bytes).hexdigest()
        cmd = [CLANG, "-Xclang", "-ast-dump=json", "-fsyntax-only", path]
        for d in include_dirs:
            cmd += ["-I", d]
        p = subprocess.run(cmd, capture_output=True)
        if p.returncode != 0:
            raise RuntimeError("clang failed on %s:\n%s" % (path, p.stderr.decode(errors="replace")[-2000:]))
        self.clang_warnings = p.stderr.decode(errors="replace")
        tu = json.loads(p.stdout)
        self._line_starts = [0]
        for i, ch in enumerate(self.src):
            if ch == "\n":
                self._line_starts.append(i + 1)
        self.funcs = {}
        self.protos = {}
        cur = None
        for n in tu["inner"]:
            loc = n.get("loc", {})
            f = loc.get("file") or loc.get("expansionLoc", {}).get("file") or loc.get("spellingLoc", {}).get("file")
            if f:
                cur = f
            if n["kind"] != "FunctionDecl":
                continue
            params = [(c.get("name"), c["type"].get("desugaredQualType") or c["type"]["qualType"])
                      for c in n.get("inner", []) if c["kind"] == "ParmVarDecl"]
            self.protos.setdefault(n["name"], {"params": params, "type": n["type"]["qualType"]})
            has_body = any(c.get("kind") == "CompoundStmt" for c in n.get("inner", []))
            if has_body and cur is not None and os.path.abspath(cur) == os.path.abspath(path):
                self.protos[n["name"]] = {"params": params, "type": n["type"]["qualType"]}
                try:
                    self.funcs[n["name"]] = Func(n["name"], n, self)
                except Unsupported as e:
                    fn = object.__new__(Func)
                    fn.name, fn.node, fn.unit, fn.unsupported = n["name"], n, self, str(e)
                    fn.text = self.src[node_begin(n):node_end(n)]
                    fn.sha = hashlib.sha256(fn.text.encode()).hexdigest()[:16]
                    fn.loops, fn.params, fn.ret, fn.body = [], [], None, None
                    self.funcs[n["name"]] = fn

    def line_of(self, node_or_off):
        o = node_or_off if isinstance(node_or_off, int) else node_begin(node_or_off)
        import bisect
        return bisect.bisect_right(self._line_starts, o)

    def text_of(self, node):
        return self.src[node_begin(node):node_end(node)]
