"""Contract language of the C sidecar (contracts_c/kernels.py).

A clause is a Python *expression* (parsed with ``ast``; never executed) over

  names                 parameters and locals of the function (scalars of type int/long), ``result``,
                        the constants INT_MIN INT_MAX LONG_MIN LONG_MAX
  len(p)                ghost length, in elements, of the block p points to      (p: pointer variable or row p[i])
  p[e]  /  p[e][f]      ghost contents of an int/long array / of row e of a ``long **``
  initialised(p, n)     cells 0..n-1 of p have been written;  initialised(p, lo, hi): cells lo..hi-1
  alive(p[i])           row i of a ``long **`` points to an allocated, not yet freed block
  forall(k, lo, hi, B)  for every integer k with lo <= k < hi: B
  implies(A, B), A and B, A or B, not A, comparisons (chains allowed), + - *, unary -
  spin(e)               e == 1 or e == -1
  psum(p, n)            p[0] + ... + p[n-1]   (specification function; see theory.py)
  old(e)                value of e in the pre-state (ensures: at entry of the call)

Evaluation is against a symbolic State.  In *goal* mode a ``forall`` in positive position is skolemised
(fresh constant), so goals handed to the solver are quantifier-free; in *hypothesis* mode it becomes a z3
ForAll (the solver instantiates it at the index terms that occur).
"""
import ast

import z3

from .model import V, fresh, IntS, psum


class SpecError(Exception):
    pass


class Spec:
    def __init__(self, st, names=None, old=None, result=None, consts=None):
        """names: optional mapping name -> V overriding st.env (callee parameters at a call site)"""
        self.st, self.names, self.old_spec, self.result, self.consts = st, names, old, result, consts or {}
        self.bound = {}

    # ---- entry points
    def hyp(self, text):
        return self._b(self._parse(text), 0)

    def goal(self, text):
        return self._b(self._parse(text), +1)

    def term(self, text):
        return self._i(self._parse(text))

    @staticmethod
    def _parse(text):
        try:
            return ast.parse(text.strip(), mode="eval").body
        except SyntaxError as e:
            raise SpecError("syntax error in contract clause %r: %s" % (text, e))

    # ---- lookups
    def _lookup(self, name):
        if name in self.bound:
            return V("int", self.bound[name])
        if name == "result":
            if self.result is None:
                raise SpecError("'result' used outside an ensures clause of a value-returning function")
            return self.result
        if name in self.consts:
            return V("int", z3.IntVal(self.consts[name]))
        if self.names is not None:
            if name in self.names:
                return self.names[name]
            raise SpecError("unknown name %r in contract" % name)
        if name in self.st.env:
            v = self.st.env[name]
            if v is None:
                raise SpecError("contract mentions %r, which is not initialised at this point" % name)
            return v
        raise SpecError("unknown name %r in contract" % name)

    def _ref(self, n):
        """pointer-valued spec expression -> ('blk', Block) | ('cell', Block, idx)"""
        if isinstance(n, ast.Name):
            v = self._lookup(n.id)
            if v.kind != "ptr":
                raise SpecError("%r is not a pointer" % n.id)
            if v.t[0] == "blk":
                return ("blk", self.st.blocks[v.t[1]])
            return ("cell", self.st.blocks[v.t[1]], v.t[2])
        if isinstance(n, ast.Subscript):
            base = self._ref(n.value)
            if base[0] != "blk" or base[1].fam is None:
                raise SpecError("only one level of pointer rows is modelled")
            return ("cell", base[1], self._i(n.slice))
        raise SpecError("not a pointer expression: %s" % ast.dump(n))

    def _len(self, r):
        return r[1].len if r[0] == "blk" else z3.Select(r[1].fam["sub_len"], r[2])

    def _data(self, r):
        if r[0] == "blk":
            if r[1].data is None:
                raise SpecError("contents of %s are not modelled (double or pointer array)" % r[1].name)
            return r[1].data
        return z3.Select(r[1].fam["sub_data"], r[2])

    def _init(self, r):
        return r[1].init if r[0] == "blk" else z3.Select(r[1].fam["sub_init"], r[2])

    # ---- integer terms
    def _i(self, n):
        if isinstance(n, ast.Constant) and isinstance(n.value, int) and not isinstance(n.value, bool):
            return z3.IntVal(n.value)
        if isinstance(n, ast.Name):
            v = self._lookup(n.id)
            if v.kind != "int":
                raise SpecError("%r is not an integer" % n.id)
            return v.t
        if isinstance(n, ast.UnaryOp) and isinstance(n.op, ast.USub):
            return -self._i(n.operand)
        if isinstance(n, ast.BinOp):
            a, b = self._i(n.left), self._i(n.right)
            if isinstance(n.op, ast.Add):
                return a + b
            if isinstance(n.op, ast.Sub):
                return a - b
            if isinstance(n.op, ast.Mult):
                return a * b
            raise SpecError("operator %s" % type(n.op).__name__)
        if isinstance(n, ast.Subscript):
            is_row = False
            try:
                r = self._ref(n.value)
            except SpecError:
                raise
            return z3.Select(self._data(r), self._i(n.slice))
        if isinstance(n, ast.Call) and isinstance(n.func, ast.Name):
            f = n.func.id
            if f == "len":
                return self._len(self._ref(n.args[0]))
            if f == "psum":
                return psum(self._data(self._ref(n.args[0])), self._i(n.args[1]))
            if f == "old":
                if self.old_spec is None:
                    raise SpecError("old() outside ensures")
                self.old_spec.bound = self.bound
                return self.old_spec._i(n.args[0])
        raise SpecError("not an integer term: %s" % ast.unparse(n))

    # ---- formulas.  pol: +1 goal/positive, -1 goal/negative, 0 hypothesis
    def _b(self, n, pol):
        if isinstance(n, ast.Constant) and isinstance(n.value, bool):
            return z3.BoolVal(n.value)
        if isinstance(n, ast.BoolOp):
            parts = [self._b(v, pol) for v in n.values]
            return z3.And(*parts) if isinstance(n.op, ast.And) else z3.Or(*parts)
        if isinstance(n, ast.UnaryOp) and isinstance(n.op, ast.Not):
            return z3.Not(self._b(n.operand, -pol))
        if isinstance(n, ast.Compare):
            terms = [self._i(n.left)] + [self._i(c) for c in n.comparators]
            out = []
            for op, a, b in zip(n.ops, terms, terms[1:]):
                out.append({ast.Lt: a < b, ast.LtE: a <= b, ast.Gt: a > b, ast.GtE: a >= b, ast.Eq: a == b,
                            ast.NotEq: a != b}[type(op)])
            return z3.And(*out) if len(out) > 1 else out[0]
        if isinstance(n, ast.Call) and isinstance(n.func, ast.Name):
            f = n.func.id
            if f == "implies":
                return z3.Implies(self._b(n.args[0], -pol), self._b(n.args[1], pol))
            if f == "spin":
                e = self._i(n.args[0])
                return z3.Or(e == 1, e == -1)
            if f == "alive":
                r = self._ref(n.args[0])
                if r[0] == "blk":
                    return z3.BoolVal(r[1].status in ("param", "heap"))
                return z3.Select(r[1].fam["sub_alive"], r[2])
            if f == "initialised":
                r = self._ref(n.args[0])
                if len(n.args) == 2:
                    lo, hi = z3.IntVal(0), self._i(n.args[1])
                else:
                    lo, hi = self._i(n.args[1]), self._i(n.args[2])
                ini = self._init(r)
                return self._quant("k", lo, hi, lambda k: z3.Select(ini, k), pol)
            if f == "forall":
                if not isinstance(n.args[0], ast.Name):
                    raise SpecError("forall: first argument must be a variable name")
                name = n.args[0].id
                lo, hi = self._i(n.args[1]), self._i(n.args[2])

                def body(k, name=name, node=n.args[3]):
                    saved = self.bound.get(name)
                    self.bound[name] = k
                    try:
                        return self._b(node, pol)
                    finally:
                        if saved is None:
                            del self.bound[name]
                        else:
                            self.bound[name] = saved
                return self._quant(name, lo, hi, body, pol)
            if f == "old":
                if self.old_spec is None:
                    raise SpecError("old() outside ensures")
                self.old_spec.bound = self.bound
                return self.old_spec._b(n.args[0], pol)
        raise SpecError("not a formula: %s" % ast.unparse(n))

    def _quant(self, name, lo, hi, body, pol):
        if pol > 0:
            k = fresh("sk_" + name, IntS)      # skolem constant: goal stays quantifier-free
            return z3.Implies(z3.And(lo <= k, k < hi), body(k))
        k = fresh("q_" + name, IntS)
        b = body(k)
        pats = select_patterns(b, k)
        if pats:
            return z3.ForAll([k], z3.Implies(z3.And(lo <= k, k < hi), b), patterns=pats)
        return z3.ForAll([k], z3.Implies(z3.And(lo <= k, k < hi), b))


def select_patterns(body, k):
    """triggers in the style of the array property fragment: the array reads  A[k]  of the body (A free of k).
    Deliberately NOT spec-function applications such as psum(a, k): with a body that mentions psum(a, k+1) those
    would form a matching loop."""
    found = {}
    stack = [body]
    seen = set()
    while stack:
        x = stack.pop()
        if z3.is_quantifier(x):
            stack.append(x.body())
            continue
        if not z3.is_app(x):
            continue
        i = x.get_id()
        if i in seen:
            continue
        seen.add(i)
        if x.decl().kind() == z3.Z3_OP_SELECT and x.arg(1).eq(k) and not _mentions(x.arg(0), k):
            found[i] = x
        stack.extend(x.children())
    return list(found.values())


def _mentions(e, k):
    stack = [e]
    while stack:
        x = stack.pop()
        if x.eq(k):
            return True
        if z3.is_app(x):
            stack.extend(x.children())
        elif z3.is_quantifier(x):
            stack.append(x.body())
    return False
