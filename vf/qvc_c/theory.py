"""Specification theory of the C contracts: one function, one lemma.

``psum(a, n)`` is the prefix sum  a[0] + ... + a[n-1]  of an integer array.  It is *defined* by

    psum(a, 0) = 0          psum(a, n+1) = psum(a, n) + a[n]   (n >= 0)

a conservative (primitive-recursive) definition; solve.py instantiates these two equations at the ground
``psum`` terms of each query and nowhere else.

Lemma ``psum_bounds(a, n)``:  if a[k] >= 0 for all 0 <= k < n  then  0 <= psum(a,i) <= psum(a,n) for all 0 <= i <= n.
It is not assumed: it is proved here by induction, and the two induction VCs plus the corollary are handed to z3
on every run and reported as obligations ``C17/c:theory:psum_bounds/...``.  What *is* trusted is the induction
schema over the naturals itself (listed in ``trusted_base``).
"""
import z3

from .model import psum, AInt, IntS


def _apply_psum_bounds(sp, args):
    """returns (goal to prove at the point of use, hypothesis gained)"""
    a_txt, n_txt = args
    pre = sp.goal("forall(k, 0, %s, %s[k] >= 0)" % (n_txt, a_txt))
    import ast
    a = sp._data(sp._ref(ast.parse(a_txt, mode="eval").body))
    n = sp.term(n_txt)
    i = z3.Int("q_i!psum_bounds")
    t = psum(a, i)
    concl = z3.ForAll([i], z3.Implies(z3.And(0 <= i, i <= n), z3.And(0 <= t, t <= psum(a, n))), patterns=[t])
    return pre, concl


LEMMAS = {"psum_bounds": {"apply": _apply_psum_bounds,
                          "statement": "forall k in [0,n): a[k] >= 0  ==>  forall i in [0,n]: 0 <= psum(a,i) <= psum(a,n)"}}


def proof_obligations():
    """[(name, hyps, goal, note)] — the proof of psum_bounds by induction on j of
       M(j):  forall i. 0 <= i <= j -> psum(a,i) <= psum(a,j)        (for j <= n, under H: a[k] >= 0 on [0,n))"""
    a = z3.Const("a", AInt)
    n, j, i0, i = z3.Ints("n j i0 i")
    out = []
    # base: M(0)
    out.append(("base", [0 <= i0, i0 <= 0], psum(a, i0) <= psum(a, 0), "M(0)"))
    # step: M(j) and j < n  ->  M(j+1)
    ih = z3.ForAll([i], z3.Implies(z3.And(0 <= i, i <= j), psum(a, i) <= psum(a, j)))
    out.append(("step", [0 <= j, j < n, z3.Select(a, j) >= 0, ih, psum(a, j + 1) == psum(a, j) + z3.Select(a, j),
                         0 <= i0, i0 <= j + 1],
                psum(a, i0) <= psum(a, j + 1), "M(j) -> M(j+1); a[j] >= 0 is the instance k:=j of the lemma's hypothesis; "
                                                "psum(a,j+1) = psum(a,j)+a[j] is the definition"))
    # corollary: M(j) for all j <= n, psum(a,0) = 0  |-  0 <= psum(a,i0) <= psum(a,n)
    jj = z3.Int("jj")
    allm = z3.ForAll([jj, i], z3.Implies(z3.And(0 <= i, i <= jj, jj <= n), psum(a, i) <= psum(a, jj)))
    out.append(("corollary", [allm, psum(a, 0) == 0, 0 <= i0, i0 <= n],
                z3.And(0 <= psum(a, i0), psum(a, i0) <= psum(a, n)), "instances (i,j) := (0,i0) and (i0,n) of M"))
    return out
