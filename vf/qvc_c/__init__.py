"""qvc_c — contract-based deductive memory-safety verifier for the C annealing kernels of qubovert (property C17).

    from vf.qvc_c import run_all
    r = run_all()          # {"obligations", "functions", "left_reach", "errors", "assumptions", "trusted_base", ...}

The .c files are read from ``$VERIF_REPO`` (default /repo) through clang's JSON AST on every call.
Contracts: /verif/contracts_c/kernels.py.  See DESIGN.md §6 (C11/C12/C17) for the plan this implements.

Modules: frontend.py (clang JSON AST, whitelist of constructs, ``Unsupported``), model.py (symbolic memory),
spec.py (contract language), vcgen.py (path-wise symbolic execution, obligation kinds), solve.py (z3 discharge,
counter-models), theory.py (psum and its lemma, proved by induction on every run), selftest.py (deliberate breakage).

Verdict rules
  * a construct outside the lowered subset, a missing function, a loop count that differs from the sidecar, or a contract
    that no longer type-checks against the function (e.g. it names a local that was renamed): the function LEAVES REACH,
    it has no obligations and no verdict.
  * loop header text differs from the recorded one: with ``QVC_C_STRICT_HEADERS=1`` the function leaves reach at once.
    By default the recorded invariants are treated as what they logically are — *candidates*: the loop rule is sound
    for any formula that passes ``inv_init`` and ``inv_pres``, wherever it came from.  If all invariant obligations of
    the function discharge, the invariants are valid for the current loop and the remaining obligations get ordinary
    verdicts (this is what lets ``j <= len_state`` be reported as an out-of-bounds read with a counter-model);
    if any invariant obligation fails, the failure may be due to the stale invariant, so the function leaves reach and
    its failing obligations are only listed under ``probes``, never as verdicts.
  * counter bounds of ``for(v = a; v < b; v++)`` loops are derived from the current header, not from the sidecar.
  * a refuted obligation carries a z3 model.  With quantified hypotheses that model is a model of finitely many
    instances, i.e. a candidate; replay on a sanitizer build is the arbiter (outside this package).
"""
import concurrent.futures as cf
import importlib.util
import multiprocessing as mp
import os
import time
import traceback

VERIF = os.path.dirname(os.path.dirname(os.path.dirname(os.path.abspath(__file__))))
PROP = "C17"
INV_KINDS = ("inv_init", "inv_pres")


def repo():
    return os.environ.get("VERIF_REPO", "/repo")


def strict_headers():
    return os.environ.get("QVC_C_STRICT_HEADERS", "0") == "1"


def load_contracts(path=None):
    path = path or os.environ.get("QVC_C_CONTRACTS", os.path.join(VERIF, "contracts_c", "kernels.py"))
    spec = importlib.util.spec_from_file_location("qvc_c_kernels", path)
    m = importlib.util.module_from_spec(spec)
    spec.loader.exec_module(m)
    return m


def _oname(fileb, fn, kind, n):
    return "%s/c:%s:%s/%s#%d" % (PROP, fileb, fn, kind, n)


def _work(job):
    """verify one function (or the theory lemma).  Runs in a worker process."""
    kind, fileb, fn = job
    t0 = time.time()
    try:
        if kind == "theory":
            return _work_theory()
        return _work_function(fileb, fn)
    except Exception:
        return {"function": fn, "file": fileb, "status": "crash", "reason": traceback.format_exc(), "obligations": [],
                "wall_s": round(time.time() - t0, 2)}


def _work_theory():
    from . import theory, solve
    obs = []
    for i, (name, hyps, goal, note) in enumerate(theory.proof_obligations()):
        r = solve.discharge(hyps, goal, {})
        r.update({"name": "%s/c:theory:psum_bounds/%s#%d" % (PROP, name, 0), "note": note, "kind": "lemma", "line": 0,
                  "src": "", "detail": r.get("detail", "")})
        obs.append(r)
    return {"function": "theory:psum_bounds", "file": "theory", "status": "ok", "obligations": obs, "sha": None,
            "paths": 0, "canaries": [], "stale_headers": [], "used_contracts": []}


def _work_function(fileb, fn):
    from . import frontend, vcgen, solve
    t0 = time.time()
    K = load_contracts()
    src_dir = os.path.join(repo(), K.SRC_DIR)
    path = os.path.join(src_dir, fileb)
    out = {"function": fn, "file": fileb, "status": "ok", "obligations": [], "sha": None, "paths": 0, "canaries": [],
           "stale_headers": [], "used_contracts": []}
    if not os.path.exists(path):
        out.update(status="left_reach", reason="source file %s is missing" % path)
        return out
    unit = frontend.Unit(path, [src_dir])
    out["file_sha"] = unit.sha
    f = unit.funcs.get(fn)
    if f is None:
        out.update(status="left_reach", reason="function %s is not defined in %s any more" % (fn, fileb))
        return out
    out["sha"] = f.sha
    if f.unsupported:
        out.update(status="left_reach", reason="Unsupported: " + f.unsupported)
        return out
    contracts = dict(K.EXTERNAL)
    contracts.update(K.FUNCTIONS)
    c = contracts[fn]
    if len(c.get("loops", [])) != len(f.loops):
        out.update(status="left_reach", reason="the function has %d loops, the sidecar records %d: invariants cannot be "
                                               "attributed" % (len(f.loops), len(c.get("loops", []))))
        return out
    stale = []
    for lp, rec in zip(f.loops, c.get("loops", [])):
        if " ".join(rec["header"].split()) != lp.header:
            stale.append({"loop": lp.ordinal, "line": lp.line, "recorded": rec["header"], "current": lp.header})
    out["stale_headers"] = stale
    if stale and strict_headers():
        out.update(status="left_reach", reason="loop header changed (strict mode): %s" % stale)
        return out
    sizes = frontend.target_model()
    ex = vcgen.Exec(unit, f, contracts, sizes)
    try:
        raw = ex.run()
    except frontend.Unsupported as e:
        out.update(status="left_reach", reason="Unsupported: %s" % e)
        return out
    out["paths"] = ex.paths
    out["used_contracts"] = sorted(ex.used_contracts)
    out["gen_s"] = round(time.time() - t0, 2)
    # stable numbering: per kind, in source order of the site
    sites = sorted({(o["kind"], o["off"], -o["end"], o["label"]) for o in raw})
    counters, names = {}, {}
    for s in sites:
        n = counters.get(s[0], 0)
        counters[s[0]] = n + 1
        names[s] = _oname(fileb, fn, s[0], n)
    merged = {}
    order = {"discharged": 0, "open": 1, "refuted": 2}
    for o in raw:
        key = (o["kind"], o["off"], -o["end"], o["label"])
        r = solve.discharge(o["hyps"], o["goal"], o["watch"])
        cur = merged.get(key)
        if cur is None:
            cur = {"name": names[key], "status": "discharged", "backend": r.get("backend"), "time_s": 0.0, "detail": None,
                   "model": None, "note": None, "kind": o["kind"], "line": o["line"], "src": o["src"], "what": " ".join(o["detail"].split()),
                   "paths": 0}
            merged[key] = cur
        cur["paths"] += 1
        cur["time_s"] = round(cur["time_s"] + r.get("time_s", 0.0), 4)
        if order[r["status"]] > order[cur["status"]]:
            cur["status"] = r["status"]
            cur["backend"] = r.get("backend")
            cur["detail"] = " ".join(("%s:%d `%s`: %s -- %s" % (fileb, o["line"], o["src"], o["detail"], r.get("detail") or "")).split())
            cur["model"] = r.get("model")
            cur["note"] = "path: " + o["trail"] if o["trail"] else None
    out["obligations"] = [merged[k] for k in sorted(merged, key=lambda k: (k[1], k[2], k[0], k[3]))]
    # vacuity canaries
    for label, pc in ex.canaries:
        out["canaries"].append({"at": label, "result": solve.satisfiable(pc)})
    out["wall_s"] = round(time.time() - t0, 2)
    return out


def jobs(only=None):
    K = load_contracts()
    js = [("theory", "theory", "psum_bounds")] if not only else []
    for fn, c in K.FUNCTIONS.items():
        if only and fn not in only:
            continue
        js.append(("function", c["file"], fn))
    return js


def run_all(max_workers=None, only=None):
    """verify every function that has a contract (or only those named).  Returns the merged record described in the
    module docstring."""
    t0 = time.time()
    K = load_contracts()
    js = jobs(only)
    # largest first
    weight = {"anneal_puso": 0, "anneal_quso": 1, "single_anneal_puso": 2, "puso_subgraph_value": 3}
    js.sort(key=lambda j: weight.get(j[2], 9))
    if max_workers == 0:          # in-process, sequential (for callers that are themselves pool workers)
        results = [_work(j) for j in js]
    else:
        with cf.ProcessPoolExecutor(max_workers=max_workers or min(len(js), os.cpu_count() or 4),
                                    mp_context=mp.get_context("fork")) as ex:
            results = list(ex.map(_work, js))
    obligations, functions, left_reach, errors, probes = [], {}, [], [], {}
    files = {}
    for r in results:
        fkey = "%s:%s" % (r["file"], r["function"])
        if r.get("file_sha"):
            files[r["file"]] = r["file_sha"]
        if r["status"] == "crash":
            errors.append("qvc_c crashed on %s:\n%s" % (fkey, r["reason"]))
            functions[fkey] = {"status": "error", "obligations": 0, "sha": r.get("sha")}
            continue
        if r["status"] == "left_reach":
            left_reach.append({"function": fkey, "reason": r["reason"]})
            functions[fkey] = {"status": "left_reach", "obligations": 0, "sha": r.get("sha"), "reason": r["reason"]}
            continue
        obs = r["obligations"]
        bad = [o for o in obs if o["status"] != "discharged"]
        rec = {"sha": r.get("sha"), "paths": r.get("paths"), "callee_contracts_used": r.get("used_contracts"),
               "solver_time_s": round(sum(o["time_s"] for o in obs), 3), "wall_s": r.get("wall_s")}
        # a program point is vacuous if the hypotheses are contradictory on EVERY path that reaches it
        # (a single infeasible path, e.g. "num_terms == 0 and the term loop runs", is normal)
        by_at = {}
        for c in r.get("canaries", []):
            by_at.setdefault(c["at"], []).append(c["result"])
        vac = [at for at, rs in by_at.items() if all(x == "unsat" for x in rs)]
        if vac:
            errors.append("vacuous context in %s at %s: the hypotheses are contradictory" % (fkey, vac))
        rec["canaries"] = {"points": len(by_at), "vacuous": vac,
                           "sat": sum(1 for rs in by_at.values() if "sat" in rs),
                           "unknown_only": sum(1 for rs in by_at.values() if "sat" not in rs and "unknown" in rs)}
        stale = r.get("stale_headers") or []
        if stale:
            rec["stale_headers"] = stale
            if any(o["kind"] in INV_KINDS for o in bad):
                # the recorded invariants are only candidates for a changed loop; they did not re-verify: no verdict
                reason = ("loop header changed (%s) and the recorded invariants do not re-verify as inductive for the new "
                          "loop: no verdict" % "; ".join("loop %d line %d: %r -> %r" % (s["loop"], s["line"], s["recorded"], s["current"]) for s in stale))
                left_reach.append({"function": fkey, "reason": reason})
                rec.update(status="left_reach", obligations=0, reason=reason)
                probes[fkey] = bad
                functions[fkey] = rec
                continue
            rec["note"] = ("loop header differs from the recorded one; the recorded invariants were re-verified as inductive "
                           "for the current loop (inv_init/inv_pres all discharged), so they are used")
        rec["obligations"] = len(obs)
        rec["discharged"] = len(obs) - len(bad)
        if not obs:
            rec["status"] = "no obligations"      # nothing in the function touches memory or signed arithmetic
        else:
            rec["status"] = "proved" if not bad and not vac else "not proved"
        functions[fkey] = rec
        obligations.extend(obs)
    if not obligations and not left_reach:
        errors.append("zero obligations generated")
    assumptions = list(K.GLOBAL_ASSUMPTIONS)
    for fn, c in K.FUNCTIONS.items():
        for cl in c.get("assumes", []):
            assumptions.append("%s assumes %s  -- %s" % (fn, cl[0], cl[1]))
    entry = {fn: [{"clause": cl[0], "provided_by": cl[1]} for cl in c["requires"] if not isinstance(cl, str)]
             for fn, c in K.FUNCTIONS.items() if c.get("entry_point")}
    from . import theory
    import z3
    trusted = [
        "clang (%s) as the parser: the JSON AST is taken to be the program" % _clang_version(),
        "z3 %s as the only back end (unsat is trusted)" % z3.get_version_string(),
        "the symbolic memory model of vf/qvc_c/model.py (blocks with ghost length / contents / initialisation; pointers are "
        "block references; rows of a long** never alias, enforced syntactically)",
        "induction over the naturals as the proof rule behind lemma psum_bounds (its two induction VCs and the corollary are "
        "checked by z3 on every run)",
        "integer widths read from the clang target: int 32, long 64, pointers 64 (LP64)",
    ] + ["external %s: %s" % (n, c["trusted"]) for n, c in K.EXTERNAL.items()]
    return {"property": PROP, "obligations": obligations, "functions": functions, "left_reach": left_reach, "errors": errors,
            "assumptions": assumptions, "trusted_base": trusted, "entry_preconditions": entry, "probes": probes,
            "files_sha": files,
            "open_by_design": [],     # reads whose initialisation could not be tracked would be listed here; there are none:
                                      # every read in the kernels is covered by an `init` obligation
            "header_policy": "strict (any header change -> left reach)" if strict_headers() else
                             "candidate (header change -> recorded invariants must re-verify as inductive, else left reach)", "lemmas": {k: v["statement"] for k, v in theory.LEMMAS.items()},
            "repo": repo(), "wall_s": round(time.time() - t0, 2),
            "solver_time_s": round(sum(o["time_s"] for o in obligations), 3)}


def _clang_version():
    import subprocess
    try:
        return subprocess.run(["clang", "--version"], capture_output=True, text=True).stdout.splitlines()[0]
    except Exception:
        return "unknown"
