"""Self-test of qvc_c by deliberate breakage.

/repo is never touched: the tree is copied to a scratch directory, each case edits the copy, the verifier is
pointed at it through ``VERIF_REPO``, and the copy is removed at the end.

* every MUST-FAIL case has to make an obligation of the named kind fail (refuted or open) *with a counter-model*
  (for statically decided obligations such as a leak, the model is a witness that the path is feasible);
* every MUST-PASS case (an edit that does not change memory behaviour) must leave every obligation discharged
  and no function out of reach;
* NO-VERDICT cases must make the function leave reach without any failing obligation.
"""
import os
import re
import shutil
import sys
import tempfile
import time

SRC = "qubovert/sim/src"

# (id, file, function(s) to verify, regex, replacement, expectation, kinds that must fail, description)
CASES = [
    ("M1", "anneal_quso.c", ["anneal_quso"],
     r"for\(j=0; j<len_state; j\+\+\) \{\n            states", "for(j=0; j<=len_state; j++) {\n            states",
     "fail", ["bounds"], "copy loop of anneal_quso runs to j <= len_state"),
    ("M2", "anneal_puso.c", ["anneal_puso"],
     r"if\(num_terms\) \{[^\n]*\n\s*index\[0\] = 0;\n\s*\}", "index[0] = 0;",
     "fail", ["bounds"], "guard if(num_terms) around index[0] = 0 removed (the real bug that was fixed)"),
    ("M3", "anneal_puso.c", ["anneal_puso"],
     r"\(k\+1\) \* sizeof\(long\)", "k * sizeof(long)",
     "fail", ["bounds"], "realloc to k instead of k+1 cells"),
    ("M4", "anneal_quso.c", ["anneal_quso"],
     r"index\[i-1\] \+ num_neighbors\[i-1\]", "index[i-1] + num_neighbors[i]",
     "fail", ["inv_pres", "bounds", "pre"], "wrong prefix sum index[i] = index[i-1] + num_neighbors[i]"),
    ("M5", "anneal_quso.c", ["anneal_quso"],
     r"free\(index\); free\(state\);", "free(state);",
     "fail", ["leak"], "free(index) dropped"),
    ("M6", "anneal_quso.c", ["single_anneal_quso"],
     r"rand_int\(rng, len_state\)", "rand_int(rng, len_state - 1)",
     "fail", ["pre"], "rand_int(rng, len_state - 1): bound can be 0"),
    ("M7", "anneal_quso.c", ["anneal_quso"],
     r"    index\[0\] = 0;\n", "",
     "fail", ["init", "inv_init"], "index[0] never written"),
    ("M8", "anneal_puso.c", ["anneal_puso"],
     r"free\(state\); free\(index\);", "free(state); free(index); free(state);",
     "fail", ["double_free"], "state freed twice"),
    ("M9", "anneal_puso.c", ["anneal_puso"],
     r"        free\(subgraphs\[i\]\);\n", "",
     "fail", ["leak_inner", "inv_pres"], "rows of subgraphs never freed"),
    ("M10", "anneal_puso.c", ["puso_subgraph_value"],
     r"for\(i=1; i<=subgraphs\[spin\]\[0\]; i\+\+\)", "for(i=0; i<=subgraphs[spin][0]+1; i++)",
     "fail", ["bounds"], "row of subgraphs read one past its end"),
    ("H1", "anneal_quso.c", ["compute_flip_dE", "quso_value"],
     r"\bneighbor\b", "nb", "pass", [], "local `neighbor` renamed to `nb` (everywhere in the file)"),
    ("H2", "anneal_puso.c", ["anneal_puso"],
     r"(    int \*state = \(int\*\)malloc\(len_state \* sizeof\(int\)\);\n)(    rng_t rng = rand_init\(seed\);\n)", r"\2\1",
     "pass", [], "two independent statements reordered"),
    ("H3", "anneal_quso.c", ["recompute_flip_dE"],
     r"4\. \* state\[spin\]", "2. * state[spin]", "pass", [], "4. -> 2. in recompute_flip_dE (semantic, not a memory-safety change)"),
    ("H4", "anneal_quso.c", ["quso_value"],
     r"for\(j=0; j<num_neighbors\[i\]; j\+\+\) \{\n            neighbor = neighbors\[index\[i\] \+ j\];\n            if",
     "for(j=0; j < num_neighbors[i]; ++j) {\n            neighbor = neighbors[index[i] + j];\n            if",
     "pass", [], "loop header rewritten without changing its meaning (j++ -> ++j, spacing): recorded invariants re-verify"),
    ("U1", "anneal_quso.c", ["quso_value"],
     r"    return value;\n\}\n\n\nvoid anneal_quso", "    while(0) { }\n    return value;\n}\n\n\nvoid anneal_quso",
     "noverdict", [], "a construct outside the lowered subset (while): function leaves reach"),
    ("U2", "anneal_quso.c", ["anneal_quso"],
     r"for\(i=1; i<len_state; i\+\+\) \{\n        index\[i\] = index\[i-1\] \+ num_neighbors\[i-1\];",
     "for(i=len_state-1; i>=1; i--) {\n        index[i] = 0;",
     "noverdict", [], "loop rewritten so that the recorded invariant no longer fits: no verdict, no alarm"),
]


def _mutate(path, pat, rep, everywhere=False):
    s = open(path).read()
    s2, n = re.subn(pat, rep, s) if everywhere else re.subn(pat, rep, s, count=1)
    if n < 1:
        raise RuntimeError("mutation did not apply: %s" % pat)
    open(path, "w").write(s2)


def main(verbose=False, cases=None):
    from . import run_all
    real = os.environ.get("VERIF_REPO", "/repo")
    scratch = tempfile.mkdtemp(prefix="qvc_c_selftest_")
    work = os.path.join(scratch, "repo")
    ok_all = True
    rows = []
    try:
        os.makedirs(os.path.join(work, SRC))
        # only the sources the verifier reads are needed
        for f in os.listdir(os.path.join(real, SRC)):
            shutil.copy(os.path.join(real, SRC, f), os.path.join(work, SRC, f))
        pristine = os.path.join(scratch, "pristine")
        shutil.copytree(os.path.join(work, SRC), pristine)
        os.environ["VERIF_REPO"] = work
        for cid, fileb, fns, pat, rep, expect, kinds, desc in CASES:
            if cases and cid not in cases:
                continue
            for f in os.listdir(pristine):
                shutil.copy(os.path.join(pristine, f), os.path.join(work, SRC, f))
            _mutate(os.path.join(work, SRC, fileb), pat, rep, everywhere=(cid == "H1"))
            t0 = time.time()
            r = run_all(only=fns)
            bad = [o for o in r["obligations"] if o["status"] != "discharged"]
            if expect == "fail":
                hits = [o for o in bad if o["kind"] in kinds and o.get("model")]
                ok = bool(hits) and not r["errors"]
                what = "; ".join("%s %s line %s {%s}" % (o["status"], o["name"].split("/", 1)[1], o["line"],
                                                         ", ".join("%s=%s" % kv for kv in list(o["model"].items())[:10]))
                                 for o in hits[:2]) or "NO FAILING OBLIGATION of kind %s (failing: %s; left reach: %s)" % (
                    kinds, [o["name"] for o in bad], r["left_reach"])
            elif expect == "pass":
                ok = not bad and not r["left_reach"] and not r["errors"] and len(r["obligations"]) > 0
                what = "%d/%d discharged" % (len(r["obligations"]) - len(bad), len(r["obligations"]))
                notes = [f.get("note") for f in r["functions"].values() if f.get("note")]
                if notes:
                    what += " (header changed; recorded invariants re-verified as inductive)"
                if not ok:
                    what += " FAILING: %s left_reach: %s errors: %s" % ([(o["name"], o.get("detail")) for o in bad], r["left_reach"], r["errors"])
            else:
                ok = not bad and bool(r["left_reach"]) and not r["errors"]
                what = "left reach: %s" % "; ".join(l["reason"][:160] for l in r["left_reach"]) if r["left_reach"] else \
                    "DID NOT LEAVE REACH; failing: %s" % [o["name"] for o in bad]
            ok_all &= ok
            rows.append((cid, expect, ok, desc, what, time.time() - t0))
            print("%-4s %-9s %-4s %s\n       -> %s  (%.0fs)" % (cid, "must-" + expect if expect != "noverdict" else "no-verdict",
                                                                "OK" if ok else "BAD", desc, what, time.time() - t0))
            sys.stdout.flush()
    finally:
        os.environ["VERIF_REPO"] = real
        shutil.rmtree(scratch, ignore_errors=True)
    print("selftest: %s (%d cases); scratch copy removed: %s" % ("all as expected" if ok_all else "SOME CASES NOT AS EXPECTED",
                                                                len(rows), not os.path.exists(scratch)))
    return 0 if ok_all else 1
