"""Symbolic memory model shared by the VC generator and the contract language.

* A C ``int``/``long`` value is a z3 ``Int`` (mathematical integer); every operation that produces one
  emits a range obligation, so a value that exists is always inside the range of its C type.
* A ``double`` carries no value at all (``V('dbl')``): comparisons on doubles are nondeterministic.
* A pointer is never a number.  It is a *reference* to a block: ``('blk', id)`` or, for the rows of a
  ``long **``, ``('cell', id_of_outer_block, index_term)``.
* A block has a ghost length in elements ``len``, ghost contents ``data`` (Int-valued arrays only), a ghost
  ``init`` array (cell was written), and a status (``param`` / ``heap`` / ``freed``) that is concrete on
  each path.  A block of pointers additionally owns a *family* of row blocks, one per cell, described by four
  arrays indexed by the cell: ``sub_len``, ``sub_data``, ``sub_init``, ``sub_alive``.  This representation
  is exact as long as rows are only created by ``p[i] = malloc(..)`` / ``p[i] = realloc(p[i], ..)`` and
  destroyed by ``free(p[i])`` — which the front end enforces syntactically (anything else is Unsupported),
  so two cells can never alias.
"""
import itertools

import z3

_fresh = itertools.count()


def fresh(name, sort):
    return z3.Const("%s!%d" % (name, next(_fresh)), sort)


IntS = z3.IntSort()
BoolS = z3.BoolSort()
AInt = z3.ArraySort(IntS, IntS)
ABool = z3.ArraySort(IntS, BoolS)
AAInt = z3.ArraySort(IntS, AInt)
AABool = z3.ArraySort(IntS, ABool)

# specification function: psum(a, n) = a[0] + ... + a[n-1]
psum = z3.Function("psum", AInt, IntS, IntS)


class V:
    """a C value.  kind: int | dbl | ptr | optr | opq | null | void"""
    __slots__ = ("kind", "t", "ct", "b")

    def __init__(self, kind, t=None, ct=None, b=None):
        self.kind, self.t, self.ct, self.b = kind, t, ct, b

    def __repr__(self):
        return "V(%s,%s,%s)" % (self.kind, self.t, self.ct)


class Block:
    __slots__ = ("id", "name", "elem", "len", "data", "init", "status", "fam", "local")

    def __init__(self, id, name, elem, len, data, init, status, fam=None, local=False):
        self.id, self.name, self.elem, self.len, self.data, self.init = id, name, elem, len, data, init
        self.status, self.fam, self.local = status, fam, local

    def copy(self):
        return Block(self.id, self.name, self.elem, self.len, self.data, self.init, self.status,
                     dict(self.fam) if self.fam is not None else None, self.local)


def new_block(bid, name, elem, status, local, length=None, init=None):
    ln = length if length is not None else fresh("len(%s)" % name, IntS)
    data = fresh("%s.data" % name, AInt) if elem in ("int", "long") else None
    ini = init if init is not None else fresh("%s.init" % name, ABool)
    fam = None
    if elem.startswith("ptr:"):
        sub = elem[4:]
        if sub not in ("int", "long"):
            from .frontend import Unsupported
            raise Unsupported("array of pointers to %s" % sub)
        fam = {"elem": sub, "sub_len": fresh("%s.sub_len" % name, AInt), "sub_data": fresh("%s.sub_data" % name, AAInt),
               "sub_init": fresh("%s.sub_init" % name, AABool), "sub_alive": fresh("%s.sub_alive" % name, ABool)}
    return Block(bid, name, elem, ln, data, ini, status, fam, local)


class State:
    def __init__(self):
        self.env = {}        # name -> V | None (declared, not yet written)
        self.types = {}      # name -> ctype
        self.blocks = {}     # id -> Block
        self.pc = []         # hypotheses
        self.guard = 0       # >0 while evaluating an operand that C evaluates conditionally
        self.trail = []      # human-readable path description

    def copy(self):
        s = State()
        s.env = dict(self.env)
        s.types = dict(self.types)
        s.blocks = {k: b.copy() for k, b in self.blocks.items()}
        s.pc = list(self.pc)
        s.guard = self.guard
        s.trail = list(self.trail)
        return s

    def block_of(self, name):
        v = self.env.get(name)
        if v is None or v.kind != "ptr" or v.t[0] != "blk":
            return None
        return self.blocks[v.t[1]]
