"""Discharge of one obligation with z3.

Goals are quantifier-free (contract ``forall``s in goals are skolemised by spec.py).  Hypotheses may contain
universally quantified invariants; z3 instantiates them (E-matching + MBQI).  The specification function
``psum`` has no quantified axiom in the solver at all: its defining equations are instantiated here, once,
at every ground ``psum(a, t)`` term that occurs (one round up, one round down), which keeps that part of every
query quantifier-free and keeps counter-models meaningful.

Outcome: discharged (unsat) / refuted (sat, with the model restricted to the watched program terms) /
open (unknown from both attempts; the candidate model, if z3 has one, is attached).
If the quantified query is not unsat, a second, fully quantifier-free query is built by instantiating every
hypothesis ``forall`` at the index terms occurring in the goal and the ground hypotheses; ``sat`` there
yields the counter-model that is reported (it is a model of finitely many instances, i.e. a *candidate*).
"""
import time

import z3

from .model import psum, IntS

import os
TIMEOUT_MS = int(os.environ.get("QVC_C_TIMEOUT_MS", "20000"))
MBQI = os.environ.get("QVC_C_MBQI", "0") == "1"


def _walk(e, seen, out_psum, out_idx, bound_depth=0):
    """collect ground psum applications and ground array-index terms"""
    stack = [e]
    while stack:
        x = stack.pop()
        if z3.is_quantifier(x):
            # do not descend: terms inside mention bound variables
            _walk_q(x.body(), seen, out_psum, out_idx)
            continue
        i = x.get_id()
        if i in seen:
            continue
        seen.add(i)
        if z3.is_app(x):
            d = x.decl()
            if d.eq(psum) and _ground(x):
                out_psum[i] = x
            if d.kind() == z3.Z3_OP_SELECT and x.arg(1).sort() == IntS and _ground(x.arg(1)):
                out_idx[x.arg(1).get_id()] = x.arg(1)
            if d.kind() == z3.Z3_OP_STORE and x.arg(1).sort() == IntS and _ground(x.arg(1)):
                out_idx[x.arg(1).get_id()] = x.arg(1)
            stack.extend(x.children())


def _walk_q(e, seen, out_psum, out_idx):
    stack = [e]
    while stack:
        x = stack.pop()
        if z3.is_quantifier(x):
            stack.append(x.body())
            continue
        if z3.is_var(x):
            continue
        if z3.is_app(x):
            if _ground(x):
                _walk(x, seen, out_psum, out_idx)
            else:
                stack.extend(x.children())


_gcache = {}     # id -> (expr kept alive, bool); ids are only unique among live ASTs, so the expr is pinned


def _ground(x):
    i = x.get_id()
    r = _gcache.get(i)
    if r is not None:
        return r[1]
    if z3.is_var(x):
        g = False
    elif z3.is_quantifier(x):
        g = False
    else:
        g = all(_ground(c) for c in x.children())
    _gcache[i] = (x, g)
    return g


def psum_instances(formulas):
    seen, ps, idx = set(), {}, {}
    for f in formulas:
        _walk(f, seen, ps, idx)
    out = []
    for t in ps.values():
        a, n = t.arg(0), t.arg(1)
        out.append(psum(a, z3.IntVal(0)) == 0)
        out.append(z3.Implies(n > 0, t == psum(a, n - 1) + z3.Select(a, n - 1)))
        out.append(z3.Implies(n >= 0, psum(a, n + 1) == t + z3.Select(a, n)))
    return out


def _instantiate(hyps, goal):
    """replace every top-level (possibly nested / conjunct) ForAll hypothesis by its instances at the ground
    integer index terms of the query"""
    seen, ps, idx = set(), {}, {}
    for f in list(hyps) + [goal]:
        _walk(f, seen, ps, idx)
    cands = list(idx.values())
    for t in ps.values():
        cands.append(t.arg(1))
    # de-duplicate, and add neighbours (k-1, k+1 are the usual instantiation points of prefix invariants)
    uniq = {}
    for c in cands:
        uniq[c.get_id()] = c
    base = list(uniq.values())[:40]
    ext = dict(uniq)
    for c in base:
        for d in (c - 1, c + 1):
            d = z3.simplify(d)
            ext[d.get_id()] = d
    cands = list(ext.values())[:120]

    def inst(f, depth=0):
        if z3.is_quantifier(f) and f.is_forall():
            nv = f.num_vars()
            if nv != 1 or depth > 1:
                return []
            res = []
            for c in cands:
                b = z3.substitute_vars(f.body(), c)
                res.extend(inst(b, depth + 1))
            return res
        if z3.is_and(f):
            r = []
            for c in f.children():
                r.extend(inst(c, depth))
            return r
        if z3.is_implies(f) and _has_forall(f.arg(1)) and not _has_quant(f.arg(0)):
            return [z3.Implies(f.arg(0), x) for x in inst(f.arg(1), depth)]
        if _has_quant(f):
            return []         # dropped (sound for the purpose: fewer hypotheses can only make 'sat' easier)
        return [f]
    out = []
    for h in hyps:
        out.extend(inst(h))
    return out


def _has_quant(f):
    stack = [f]
    while stack:
        x = stack.pop()
        if z3.is_quantifier(x):
            return True
        if z3.is_app(x):
            stack.extend(x.children())
    return False


def quantified_hyps(hyps):
    return any(_has_quant(h) for h in hyps)


def _has_forall(f):
    return _has_quant(f)


def _model_dict(m, watch, goal):
    out = {}
    for label, t in watch.items():
        try:
            v = m.eval(t, model_completion=True)
            out[label] = str(v)
        except Exception:
            pass
    # the array cells the goal talks about
    seen, ps, idx = set(), {}, {}
    stack = [goal]
    n = 0
    while stack and n < 200:
        x = stack.pop()
        n += 1
        if z3.is_app(x):
            if x.decl().kind() == z3.Z3_OP_SELECT and x.sort() in (IntS, z3.BoolSort()):
                try:
                    out[str(x)[:80].replace("\n", " ")] = str(m.eval(x, model_completion=True))
                except Exception:
                    pass
            stack.extend(x.children())
    return out


def discharge(hyps, goal, watch, timeout_ms=TIMEOUT_MS):
    t0 = time.time()
    g = z3.simplify(goal)
    if z3.is_true(g):
        return {"status": "discharged", "backend": "simplify", "time_s": 0.0}
    extra = psum_instances(list(hyps) + [goal])
    # second round so that psum terms created by the first round get their bounds by E-matching only; no loop
    s = z3.Solver()
    s.set("timeout", timeout_ms)
    if quantified_hyps(hyps) and not MBQI:
        # E-matching only: a failing goal comes back 'unknown' at once instead of after a long model search;
        # the definite answer then comes from the quantifier-free query below
        s.set("smt.mbqi", False)
    for h in hyps:
        s.add(h)
    for h in extra:
        s.add(h)
    s.add(z3.Not(goal))
    r = s.check()
    if r == z3.unsat:
        return {"status": "discharged", "backend": "z3-%s" % z3.get_version_string(), "time_s": round(time.time() - t0, 4)}
    quantified = any(_has_quant(h) for h in hyps)
    first = str(r)
    reason = s.reason_unknown() if r == z3.unknown else ""
    model = None
    if r == z3.sat:
        model = _model_dict(s.model(), watch, goal)
        if not quantified:
            return {"status": "refuted", "backend": "z3-%s" % z3.get_version_string(), "time_s": round(time.time() - t0, 4),
                    "model": model, "detail": "sat (quantifier-free query)"}
    # quantifier-free re-run on instances: gives a definite model
    inst = _instantiate(list(hyps), goal)
    extra2 = psum_instances(inst + [goal])
    s2 = z3.Solver()
    s2.set("timeout", timeout_ms)
    for h in inst + extra2:
        s2.add(h)
    s2.add(z3.Not(goal))
    r2 = s2.check()
    dt = round(time.time() - t0, 4)
    if r2 == z3.unsat:
        return {"status": "discharged", "backend": "z3-%s/instantiated" % z3.get_version_string(), "time_s": dt}
    if r2 == z3.sat:
        m2 = _model_dict(s2.model(), watch, goal)
        if r == z3.sat:
            return {"status": "refuted", "backend": "z3-%s" % z3.get_version_string(), "time_s": dt, "model": model,
                    "detail": "sat with quantified hypotheses (MBQI model) and sat on the instantiated query"}
        return {"status": "refuted", "backend": "z3-%s/instantiated" % z3.get_version_string(), "time_s": dt, "model": m2,
                "detail": "quantified query: %s %s; quantifier-free query over the instances of the hypotheses at the "
                          "occurring index terms: sat (candidate counter-model)" % (first, reason)}
    try:
        cand = _model_dict(s.model(), watch, goal) if r == z3.unknown else model
    except Exception:
        cand = model
    return {"status": "open", "backend": "z3-%s" % z3.get_version_string(), "time_s": dt, "model": cand,
            "detail": "quantified query: %s %s; instantiated query: %s %s" % (first, reason, r2, s2.reason_unknown() if r2 == z3.unknown else "")}


def satisfiable(hyps, timeout_ms=1500):
    """vacuity canary: 'unsat' means the context is contradictory (every goal would be discharged vacuously)"""
    s = z3.Solver()
    s.set("timeout", timeout_ms)
    for h in hyps:
        s.add(h)
    for h in psum_instances(list(hyps)):
        s.add(h)
    return str(s.check())
