"""Discharge of one obligation with z3.

Goals are quantifier-free (contract ``forall``s in goals are skolemised by spec.py).  Hypotheses may contain
universally quantified invariants; z3 instantiates them (E-matching + MBQI).  The specification function
``psum`` has no quantified axiom in the solver at all: its defining equations are instantiated here, once,
at every ground ``psum(a, t)`` term that occurs (one round up, one round down), which keeps that part of every
query quantifier-free and keeps counter-models meaningful.

Outcome: discharged (unsat) / refuted (sat, with the model restricted to the watched program terms) /
open (unknown from both attempts; the candidate model, if z3 has one, is attached).
If the quantified query is not unsat, a second, fully quantifier-free query is built by instantiating every
hypothesis ``forall`` at the index terms occurring in the goal and the ground hypotheses; ``sat`` there
yields the counter-model that is reported (it is a model of finitely many instances, i.e. a *candidate*).
"""
import time

import z3

from .model import psum, IntS

import os
TIMEOUT_MS = int(os.environ.get("QVC_C_TIMEOUT_MS", "8000"))
PROOF_TIMEOUT_MS = int(os.environ.get("QVC_C_PROOF_TIMEOUT_MS", "12000"))   # wall-clock safety only: clean obligations
# discharge in < 0.2 s, a failing goal comes back as 'unknown' from E-matching at once; the generous limit keeps
# verdicts from flipping when all cores are busy
MBQI = os.environ.get("QVC_C_MBQI", "0") == "1"


def _walk(e, seen, out_psum, out_idx, bound_depth=0):
    """collect ground psum applications and ground array-index terms"""
    stack = [e]
    while stack:
        x = stack.pop()
        if z3.is_quantifier(x):
            # do not descend: terms inside mention bound variables
            _walk_q(x.body(), seen, out_psum, out_idx)
            continue
        i = x.get_id()
        if i in seen:
            continue
        seen.add(i)
        if z3.is_app(x):
            d = x.decl()
            if d.eq(psum) and _ground(x):
                out_psum[i] = x
            if d.kind() == z3.Z3_OP_SELECT and x.arg(1).sort() == IntS and _ground(x.arg(1)):
                out_idx[x.arg(1).get_id()] = x.arg(1)
            if d.kind() == z3.Z3_OP_STORE and x.arg(1).sort() == IntS and _ground(x.arg(1)):
                out_idx[x.arg(1).get_id()] = x.arg(1)
            stack.extend(x.children())


def _walk_q(e, seen, out_psum, out_idx):
    stack = [e]
    while stack:
        x = stack.pop()
        if z3.is_quantifier(x):
            stack.append(x.body())
            continue
        if z3.is_var(x):
            continue
        if z3.is_app(x):
            if _ground(x):
                _walk(x, seen, out_psum, out_idx)
            else:
                stack.extend(x.children())


_gcache = {}     # id -> (expr kept alive, bool); ids are only unique among live ASTs, so the expr is pinned


def _ground(x):
    i = x.get_id()
    r = _gcache.get(i)
    if r is not None:
        return r[1]
    if z3.is_var(x):
        g = False
    elif z3.is_quantifier(x):
        g = False
    else:
        g = all(_ground(c) for c in x.children())
    _gcache[i] = (x, g)
    return g


def psum_instances(formulas):
    seen, ps, idx = set(), {}, {}
    for f in formulas:
        _walk(f, seen, ps, idx)
    out = []
    for t in ps.values():
        a, n = t.arg(0), t.arg(1)
        out.append(psum(a, z3.IntVal(0)) == 0)
        out.append(z3.Implies(n > 0, t == psum(a, n - 1) + z3.Select(a, n - 1)))
        out.append(z3.Implies(n >= 0, psum(a, n + 1) == t + z3.Select(a, n)))
    return out


def _size(t):
    return len(t.sexpr())


def _candidates(hyps, goal):
    gseen, gps, gidx = set(), {}, {}
    _walk(goal, gseen, gps, gidx)
    goal_terms = list(gidx.values()) + [t.arg(1) for t in gps.values()]
    hseen, hps, hidx = set(), {}, {}
    for f in hyps:
        _walk(f, hseen, hps, hidx)
    hyp_terms = sorted(list(hidx.values()) + [t.arg(1) for t in hps.values()], key=_size)
    out = {}
    for c in goal_terms:
        for d in (c, z3.simplify(c - 1), z3.simplify(c + 1)):
            out.setdefault(d.get_id(), d)
    inner = list(out.values())[:12]
    for c in hyp_terms:
        if len(out) >= 36:
            break
        out.setdefault(c.get_id(), c)
    return list(out.values()), (inner or list(out.values())[:8])


def _instantiate(hyps, goal):
    """replace every ForAll hypothesis (top level, under a conjunction, or as the consequent of an implication) by
    its instances at ground integer index terms of the query: all index terms of the goal (and their neighbours
    t-1, t+1), plus the smallest index terms of the hypotheses.  Inner quantifiers use the goal's terms only."""
    cands, inner_cands = _candidates(hyps, goal)

    def inst(f, depth=0):
        if z3.is_quantifier(f) and f.is_forall():
            nv = f.num_vars()
            if depth > 1:
                return []
            res = []
            if nv == 1:
                for c in (cands if depth == 0 else inner_cands):
                    res.extend(inst(z3.substitute_vars(f.body(), c), depth + 1))
            elif nv == 2 and depth == 0:
                for c in inner_cands:
                    for d in inner_cands:
                        res.extend(inst(z3.substitute_vars(f.body(), c, d), depth + 2))
            return res
        if z3.is_and(f):
            r = []
            for c in f.children():
                r.extend(inst(c, depth))
            return r
        if z3.is_implies(f) and _has_quant(f.arg(1)) and not _has_quant(f.arg(0)):
            return [z3.Implies(f.arg(0), x) for x in inst(f.arg(1), depth)]
        if _has_quant(f):
            return []         # dropped: fewer hypotheses can only make 'sat' easier, never 'unsat'
        return [f]
    out = []
    for h in hyps:
        out.extend(inst(h))
    return out


def nonlinear_factors(formulas):
    """integer constants that occur as a factor of a product of two non-numerals"""
    seen, out = set(), {}
    stack = list(formulas)
    while stack:
        x = stack.pop()
        if z3.is_quantifier(x):
            stack.append(x.body())
            continue
        if not z3.is_app(x):
            continue
        i = x.get_id()
        if i in seen:
            continue
        seen.add(i)
        if x.decl().kind() == z3.Z3_OP_MUL:
            nn = [c for c in x.children() if not z3.is_int_value(c)]
            if len(nn) >= 2:
                for c in nn:
                    if z3.is_const(c) and c.decl().kind() == z3.Z3_OP_UNINTERPRETED:
                        out[c.get_id()] = c
        stack.extend(x.children())
    return list(out.values())


def _has_quant(f):
    stack = [f]
    while stack:
        x = stack.pop()
        if z3.is_quantifier(x):
            return True
        if z3.is_app(x):
            stack.extend(x.children())
    return False


def quantified_hyps(hyps):
    return any(_has_quant(h) for h in hyps)


def _has_forall(f):
    return _has_quant(f)


def _model_dict(m, watch, goal):
    out = {}
    for label, t in watch.items():
        try:
            v = m.eval(t, model_completion=True)
            out[label] = str(v)
        except Exception:
            pass
    # the array cells the goal talks about
    seen, ps, idx = set(), {}, {}
    stack = [goal]
    n = 0
    while stack and n < 200:
        x = stack.pop()
        n += 1
        if z3.is_app(x):
            if x.decl().kind() == z3.Z3_OP_SELECT and x.sort() in (IntS, z3.BoolSort()):
                try:
                    out[str(x)[:80].replace("\n", " ")] = str(m.eval(x, model_completion=True))
                except Exception:
                    pass
            stack.extend(x.children())
    return out


def _check(formulas, timeout_ms, mbqi=None):
    s = z3.Solver()
    s.set("timeout", int(timeout_ms))
    if mbqi is not None:
        s.set("smt.mbqi", mbqi)
    for f in formulas:
        s.add(f)
    return s.check(), s


def discharge(hyps, goal, watch, timeout_ms=TIMEOUT_MS):
    t0 = time.time()
    be = "z3-%s" % z3.get_version_string()

    def done(status, **kw):
        kw.update(status=status, time_s=round(time.time() - t0, 4))
        kw.setdefault("backend", be)
        return kw
    g = z3.simplify(goal)
    if z3.is_true(g):
        return done("discharged", backend="simplify")
    hyps = list(hyps)
    neg = z3.Not(goal)
    quantified = quantified_hyps(hyps)
    # 1. the proof attempt: quantified hypotheses, E-matching only (a failing goal then comes back quickly as
    #    'unknown' instead of after a long model search), psum equations instantiated at the ground psum terms
    r, s = _check(hyps + psum_instances(hyps + [goal]) + [neg], max(timeout_ms, PROOF_TIMEOUT_MS),
                  mbqi=(MBQI if quantified else None))
    if r == z3.unsat:
        return done("discharged")
    if r == z3.sat and not quantified:
        return done("refuted", model=_model_dict(s.model(), watch, goal), detail="sat (quantifier-free query)")
    first = "%s %s" % (r, s.reason_unknown() if r == z3.unknown else "")
    # 2. model search on the quantifier-free query made of the instances of the hypotheses.  Products of two
    #    unknowns make z3's search for a model slow, so the factors are first pinned to small values (a model found
    #    that way is a model all the same).
    inst = _instantiate(hyps, goal) if quantified else hyps
    base = inst + psum_instances(inst + [goal]) + [neg]
    factors = nonlinear_factors(base)[:3]
    tries = []
    if factors:
        import itertools
        for vals in itertools.product((1, 2, 3), repeat=len(factors)):
            tries.append([f == v for f, v in zip(factors, vals)])
        tries = sorted(tries, key=lambda t: sum(c.arg(1).as_long() for c in t))[:9]
    tries.append([])
    last = None
    for extra in tries:
        r2, s2 = _check(base + extra, min(timeout_ms, 6000) if extra else timeout_ms)
        last = (r2, s2)
        if r2 == z3.sat:
            return done("refuted", backend=be + ("/instantiated" if quantified else ""),
                        model=_model_dict(s2.model(), watch, goal),
                        detail="proof attempt with quantified hypotheses: %s; the quantifier-free query over the instances of "
                               "the hypotheses at the occurring index terms is sat: candidate counter-model" % first)
        if r2 == z3.unsat and not extra:
            return done("discharged", backend=be + "/instantiated")
    r2, s2 = last
    return done("open", model=None, detail="proof attempt: %s; instantiated query: %s %s" % (
        first, r2, s2.reason_unknown() if r2 == z3.unknown else ""))


def satisfiable(hyps, timeout_ms=700):
    """vacuity canary: 'unsat' means the context is contradictory (every goal would be discharged vacuously)"""
    s = z3.Solver()
    s.set("timeout", timeout_ms)
    for h in hyps:
        s.add(h)
    for h in psum_instances(list(hyps)):
        s.add(h)
    return str(s.check())
