"""Verification-condition generator for the C kernels: path-wise symbolic execution of the clang AST.

* one path per branch of every ``if``; loops are *cut*: the invariant is checked on entry (``inv_init``), the
  state is havocked (every scalar and every ghost component of a block the loop can change gets a fresh
  value), the invariant is assumed, and the two continuations are explored separately: "condition true; body;
  increment; invariant re-established (``inv_pres``); stop" and "condition false; go on after the loop".
* calls are modular: the callee's ``requires`` are obligations (``pre``), what it ``modifies`` is havocked,
  its ``ensures`` are assumed.  The callee's body is never looked at from the caller.
* every obligation is recorded with the path condition at that point and then *assumed*, so one defect
  yields one failing obligation and not a cascade.

Obligation kinds
    bounds        array index within [0, ghost length)
    init          cell read was written before (ghost ``init`` array)
    init_local    local scalar / opaque local read before being written
    overflow      result of an int/long operation inside the range of its type (signed-overflow clause)
    narrow        value converted to a narrower signed type fits (long -> int, unsigned -> int)
    alloc_size    element count passed to malloc/realloc is >= 0 (>= 1 for realloc) and the byte size fits
    alive         row of a ``long **`` dereferenced / realloc'd / freed is allocated
    use_after_free, double_free, free_nonheap, leak, leak_overwrite, leak_inner
    frame         writes only to what the contract's ``modifies`` lists
    noalias       blocks a callee modifies are not passed twice
    pre           callee precondition at a call site           post      own ensures at every exit
    inv_init      loop invariant on entry                      inv_pres  loop invariant preserved
    lemma_pre     hypothesis of a lemma the contract invokes
"""
import re

import z3

from .frontend import (Unsupported, ctype, ctype_of_str, int_range, sizeof_ctype, node_begin, node_end, SIGNED, UNSIGNED,
                       INTEGRAL)
from .model import V, Block, State, new_block, fresh, IntS, BoolS, AInt, ABool, psum
from .spec import Spec, SpecError
from . import theory


def _strip(n, casts=True):
    while True:
        k = n["kind"]
        if k == "ParenExpr":
            n = n["inner"][0]
        elif casts and k in ("ImplicitCastExpr", "CStyleCastExpr") and n.get("castKind") in ("NoOp", "BitCast", "LValueToRValue"):
            n = n["inner"][0]
        else:
            return n


def _strip_all_casts(n):
    while n["kind"] in ("ParenExpr", "ImplicitCastExpr", "CStyleCastExpr"):
        n = n["inner"][0]
    return n


def clause_text(c):
    return c if isinstance(c, str) else c[0]


class Exec:
    def __init__(self, unit, func, contracts, sizes):
        self.unit, self.func, self.contracts, self.sizes = unit, func, contracts, sizes
        self.c = contracts[func.name]
        self.modifies = set(self.c.get("modifies", []))
        self.obs = []
        self.canaries = []
        self.pure = 0
        self.nblocks = 0
        self.paths = 0
        self.used_contracts = set()
        self.open_by_design = []
        lo_i, hi_i = int_range("int", sizes)
        lo_l, hi_l = int_range("long", sizes)
        self.consts = {"INT_MIN": lo_i, "INT_MAX": hi_i, "LONG_MIN": lo_l, "LONG_MAX": hi_l}
        self.stale_headers = []

    # ------------------------------------------------------------------ helpers
    def line(self, node):
        return self.unit.line_of(node)

    def text(self, node):
        return re.sub(r"\s+", " ", self.unit.text_of(node))[:90]

    def unsupported(self, msg, node=None):
        return Unsupported(msg, node, self.unit)

    def range_of(self, t):
        return int_range(t, self.sizes)

    def range_fact(self, st, term, t):
        if z3.is_int_value(term):
            return
        lo, hi = self.range_of(t)
        st.pc.append(z3.And(term >= lo, term <= hi))

    def watch(self, st):
        w = {}
        for name, v in st.env.items():
            if v is None:
                continue
            if v.kind == "int":
                w[name] = v.t
            elif v.kind == "ptr" and v.t[0] == "blk":
                b = st.blocks[v.t[1]]
                w["len(%s)" % name] = b.len
        return w

    def oblige(self, kind, node, goal, st, detail="", label=None):
        if self.pure:
            return
        if isinstance(goal, bool):
            goal = z3.BoolVal(goal)
        if label is None:
            # details that print a symbolic index ("read of a[<z3 term>]") are path dependent: cut at the index
            label = re.sub(r"[!]\d+", "", detail)
            if kind in ("bounds", "init", "alive", "double_free", "leak_overwrite"):
                label = re.sub(r"\[.*", "", label, flags=re.S)
        self.obs.append({"kind": kind, "off": node_begin(node) if node is not None else 0,
                         "end": node_end(node) if node is not None else 0, "label": label,
                         "line": self.line(node) if node is not None else 0, "detail": detail,
                         "src": self.text(node) if node is not None else "", "hyps": tuple(st.pc), "goal": goal,
                         "watch": self.watch(st), "trail": " > ".join(st.trail[-6:])})
        if not z3.is_false(goal):      # a statically failed check is reported once; assuming it would make the rest vacuous
            st.pc.append(goal)

    def spec(self, st, names=None, old=None, result=None):
        return Spec(st, names=names, old=old, result=result, consts=self.consts)

    def new_block(self, st, name, elem, status, local, length=None, init=None):
        bid = self.nblocks
        self.nblocks += 1
        b = new_block(bid, name, elem, status, local, length, init)
        st.blocks[bid] = b
        if length is None:
            esz = sizeof_ctype(elem, self.sizes)
            st.pc.append(z3.And(b.len >= 0, b.len * esz <= 2 ** 63 - 1))
        return b

    # ------------------------------------------------------------------ entry
    def run(self):
        f = self.func
        st = State()
        for name, t in f.params:
            st.types[name] = t
            if t in INTEGRAL:
                x = z3.Int(name)
                st.env[name] = V("int", x, t)
                self.range_fact(st, x, t)
            elif t == "double":
                st.env[name] = V("dbl", None, t)
            elif t == "ptr:opaque":
                st.env[name] = V("optr", None, t)
            elif t.startswith("ptr:"):
                b = self.new_block(st, name, t[4:], "param", False)
                st.env[name] = V("ptr", ("blk", b.id), t)
            else:
                raise self.unsupported("parameter %s of type %s" % (name, t))
        sp = self.spec(st)
        try:
            for c in self.c.get("requires", []) + self.c.get("assumes", []):
                st.pc.append(sp.hyp(clause_text(c)))
            self.apply_lemmas(st, f.node)
        except SpecError as e:
            raise self.unsupported("contract of %s: %s" % (f.name, e))
        self.entry = st.copy()
        self.canaries.append(("entry", tuple(st.pc)))
        for s in self.exec_stmt(f.body, st):
            self.finish(s, None, f.body)
        return self.obs

    def apply_lemmas(self, st, node):
        for i, l in enumerate(self.c.get("lemmas", [])):
            m = re.match(r"\s*(\w+)\((.*)\)\s*$", l)
            if not m or m.group(1) not in theory.LEMMAS:
                raise SpecError("unknown lemma %r" % l)
            args = [a.strip() for a in m.group(2).split(",")]
            sp = self.spec(st)
            pre, concl = theory.LEMMAS[m.group(1)]["apply"](sp, args)
            self.oblige("lemma_pre", node, pre, st, "hypothesis of %s" % l)
            st.pc.append(concl)

    def finish(self, st, value, node):
        self.paths += 1
        if self.pure:
            return
        names = {}
        for name, t in self.func.params:
            names[name] = self.entry.env[name]
        old = self.spec(self.entry, names=names)
        sp = self.spec(st, names=names, old=old, result=value if (value is not None and value.kind == "int") else None)
        for i, c in enumerate(self.c.get("ensures", [])):
            try:
                g = sp.goal(clause_text(c))
            except SpecError as e:
                raise self.unsupported("ensures of %s: %s" % (self.func.name, e))
            self.oblige("post", node, g, st, "ensures[%d]: %s" % (i, clause_text(c)))
        for b in st.blocks.values():
            if b.local:
                self.oblige("leak", node, b.status == "freed", st, "block allocated for '%s' is freed on every path to this exit" % b.name)

    # ------------------------------------------------------------------ statements
    def exec_stmt(self, n, st):
        k = n["kind"]
        if k == "CompoundStmt":
            sts = [st]
            for c in n.get("inner", []):
                nxt = []
                for s in sts:
                    nxt.extend(self.exec_stmt(c, s))
                sts = nxt
                if not sts:
                    break
            return sts
        if k == "NullStmt":
            return [st]
        if k == "DeclStmt":
            for d in n["inner"]:
                self.decl(d, st)
            return [st]
        if k == "IfStmt":
            inner = n["inner"]
            c = self.truth(self.ev(inner[0], st), st)
            a, b = st, st.copy()
            a.pc.append(c)
            a.trail.append("L%d:if-true" % self.line(n))
            b.pc.append(z3.Not(c))
            b.trail.append("L%d:if-false" % self.line(n))
            out = self.exec_stmt(inner[1], a)
            if len(inner) > 2:
                out += self.exec_stmt(inner[2], b)
            else:
                out.append(b)
            return out
        if k == "ReturnStmt":
            v = None
            if n.get("inner"):
                v = self.ev(n["inner"][0], st)
            self.finish(st, v, n)
            return []
        if k == "ForStmt":
            return self.exec_for(n, st)
        # expression statement
        self.ev(n, st)
        return [st]

    def decl(self, d, st):
        name = d["name"]
        t = ctype(d)
        st.types[name] = t
        st.env[name] = None
        inner = d.get("inner", [])
        if inner:
            self.assign_to(("var", name), inner[0], st, d, t)

    # ------------------------------------------------------------------ loops
    def loop_contract(self, n):
        lp = self.func.loops[n["_loop"]]
        recs = self.c.get("loops", [])
        rec = recs[lp.ordinal]
        want = re.sub(r"\s+", " ", rec["header"]).strip()
        if want != lp.header and lp.ordinal not in [o for o, _, _ in self.stale_headers]:
            self.stale_headers.append((lp.ordinal, want, lp.header))
        return lp, rec

    def exec_for(self, n, st):
        init, _, cond, inc, body = n["inner"]
        lp, rec = self.loop_contract(n)
        if init:
            if init["kind"] == "DeclStmt":
                for d in init["inner"]:
                    self.decl(d, st)
            else:
                self.ev(init, st)
        tag = "L%d:loop%d" % (lp.line, lp.ordinal)
        scal, comps = self.modset([cond, inc, body] if inc else [cond, body], st)
        invs = self.auto_invariants(n, st, scal, comps) + [
            ("inv[%d]: %s" % (i, clause_text(c)), clause_text(c)) for i, c in enumerate(rec.get("invariant", []))]

        def inv_formula(item, s, goal):
            label, what = item
            if callable(what):
                return what(s)
            sp = self.spec(s)
            try:
                return sp.goal(what) if goal else sp.hyp(what)
            except SpecError as e:
                raise self.unsupported("invariant of loop %d of %s: %s" % (lp.ordinal, self.func.name, e), n)

        # 1. invariant holds on entry
        for item in invs:
            self.oblige("inv_init", n, inv_formula(item, st, True), st, "loop %d, on entry: %s" % (lp.ordinal, item[0]))
        # 2. arbitrary iteration
        head = st
        for name in sorted(scal):
            if name not in head.env:
                continue  # declared inside the loop
            v = head.env[name]
            if v is None:
                continue  # not initialised on entry: stays "unwritten" at the head (reading it is an error)
            if v.kind == "int":
                x = fresh(name, IntS)
                head.env[name] = V("int", x, v.ct)
                self.range_fact(head, x, v.ct)
            elif v.kind == "dbl":
                pass
            else:
                raise self.unsupported("loop modifies %s of kind %s" % (name, v.kind), n)
        for bid, comp in sorted(comps):
            b = head.blocks[bid]
            if comp == "data":
                if b.data is not None:
                    b.data = fresh("%s.data" % b.name, AInt)
            elif comp == "init":
                b.init = fresh("%s.init" % b.name, ABool)
            else:
                b.fam[comp] = fresh("%s.%s" % (b.name, comp), b.fam[comp].sort())
        for item in invs:
            head.pc.append(inv_formula(item, head, False))
        statuses = {bid: b.status for bid, b in head.blocks.items()}
        c = self.truth(self.ev(cond, head), head)
        # 3a. one iteration
        it = head.copy()
        it.pc.append(c)
        it.trail.append(tag + ":body")
        self.canaries.append((tag + " body", tuple(it.pc)))
        for s in self.exec_stmt(body, it):
            if inc:
                self.ev(inc, s)
            if {bid: b.status for bid, b in s.blocks.items() if bid in statuses} != statuses or \
                    any(b.local and b.status == "heap" for bid, b in s.blocks.items() if bid not in statuses):
                raise self.unsupported("a named block is allocated or freed inside a loop", n)
            for item in invs:
                self.oblige("inv_pres", n, inv_formula(item, s, True), s, "loop %d, after one iteration: %s" % (lp.ordinal, item[0]))
            self.paths += 1
        # 3b. exit
        head.pc.append(z3.Not(c))
        head.trail.append(tag + ":exit")
        return [head]

    def auto_invariants(self, n, st, scal, comps):
        """``lo <= v`` and ``v == lo or v <= bound`` for counting loops, derived from the *current* header.
        They are candidates like any other invariant: they are obligations too."""
        init, _, cond, inc, body = n["inner"]
        try:
            if not init or not inc:
                return []
            if init["kind"] == "DeclStmt":
                if len(init["inner"]) != 1:
                    return []
                v = init["inner"][0]["name"]
            elif init["kind"] == "BinaryOperator" and init["opcode"] == "=" and init["inner"][0]["kind"] == "DeclRefExpr":
                v = init["inner"][0]["referencedDecl"]["name"]
            else:
                return []
            if inc["kind"] != "UnaryOperator" or inc["opcode"] != "++":
                return []
            tgt = _strip(inc["inner"][0])
            if tgt["kind"] != "DeclRefExpr" or tgt["referencedDecl"]["name"] != v:
                return []
            if cond["kind"] != "BinaryOperator" or cond["opcode"] not in ("<", "<="):
                return []
            lhs = _strip_all_casts(cond["inner"][0])
            if lhs["kind"] != "DeclRefExpr" or lhs["referencedDecl"]["name"] != v:
                return []
            bscal, bcomps = self.modset([body], st)
            if v in bscal:
                return []
            v0 = st.env[v]
            if v0 is None or v0.kind != "int":
                return []
            a = v0.t
            out = [("auto: %s >= initial value" % v, lambda s, v=v, a=a: s.env[v].t >= a)]
            # is the bound loop-invariant?
            bound = cond["inner"][1]
            names = set()
            self._names(bound, names)
            ok = True
            for nm in names:
                if nm in scal:
                    ok = False
                b = st.block_of(nm)
                if b is not None and any(bid == b.id for bid, _ in comps):
                    ok = False
            if ok:
                strict = cond["opcode"] == "<"

                def hi(s, v=v, a=a, bound=bound, strict=strict):
                    self.pure += 1
                    try:
                        bv = self.ev(bound, s.copy())
                    finally:
                        self.pure -= 1
                    if bv.kind != "int":
                        return z3.BoolVal(True)
                    x = s.env[v].t
                    return z3.Or(x == a, x <= bv.t if strict else x <= bv.t + 1)
                out.append(("auto: %s == initial value or %s %s" % (v, v, "<= bound" if strict else "<= bound+1"), hi))
            return out
        except Unsupported:
            return []

    def _names(self, n, out):
        if not isinstance(n, dict):
            return
        if n.get("kind") == "DeclRefExpr" and n["referencedDecl"]["kind"] != "FunctionDecl":
            out.add(n["referencedDecl"]["name"])
        for c in n.get("inner", []):
            self._names(c, out)

    def modset(self, nodes, st):
        scal, comps = set(), set()

        def target(t, n):
            t = _strip(t, casts=False)
            if t["kind"] == "DeclRefExpr":
                name = t["referencedDecl"]["name"]
                ty = st.types.get(name) or ctype(t)
                if ty.startswith("ptr:") or ty == "opaque":
                    raise self.unsupported("pointer/struct variable '%s' assigned inside a loop" % name, n)
                scal.add(name)
                return
            if t["kind"] == "ArraySubscriptExpr":
                base = _strip(t["inner"][0])
                if base["kind"] == "DeclRefExpr":
                    b = st.block_of(base["referencedDecl"]["name"])
                    if b is None:
                        raise self.unsupported("write through a pointer that is not bound to a block", n)
                    if b.fam is not None:
                        comps.update({(b.id, "init"), (b.id, "sub_len"), (b.id, "sub_init"), (b.id, "sub_alive")})
                    else:
                        comps.update({(b.id, "data"), (b.id, "init")})
                    return
                if base["kind"] == "ArraySubscriptExpr":
                    bb = _strip(base["inner"][0])
                    if bb["kind"] == "DeclRefExpr":
                        b = st.block_of(bb["referencedDecl"]["name"])
                        if b is not None and b.fam is not None:
                            comps.update({(b.id, "sub_data"), (b.id, "sub_init")})
                            return
            raise self.unsupported("assignment target outside the lowered subset", n)

        def walk(n):
            if not isinstance(n, dict) or "kind" not in n:
                return
            k = n["kind"]
            if k == "BinaryOperator" and n["opcode"] == "=" or k == "CompoundAssignOperator":
                target(n["inner"][0], n)
            elif k == "UnaryOperator" and n["opcode"] in ("++", "--"):
                target(n["inner"][0], n)
            elif k == "DeclStmt":
                for d in n["inner"]:
                    t = ctype(d)
                    if t.startswith("ptr:"):
                        raise self.unsupported("pointer declared inside a loop", n)
                    scal.add(d["name"])
            elif k == "CallExpr":
                name = self.callee_name(n)
                args = n["inner"][1:]
                if name == "free":
                    a = _strip(args[0])
                    if a["kind"] == "ArraySubscriptExpr":
                        base = _strip(a["inner"][0])
                        b = st.block_of(base["referencedDecl"]["name"]) if base["kind"] == "DeclRefExpr" else None
                        if b is None or b.fam is None:
                            raise self.unsupported("free of this operand inside a loop", n)
                        comps.add((b.id, "sub_alive"))
                    else:
                        raise self.unsupported("free of a named block inside a loop", n)
                elif name not in ("malloc", "realloc"):
                    c = self.contracts.get(name)
                    if c is None:
                        raise self.unsupported("call of '%s', which has no contract" % name, n)
                    params = self.param_names(name, c)
                    for m in c.get("modifies", []):
                        a = _strip(args[params.index(m)])
                        b = st.block_of(a["referencedDecl"]["name"]) if a["kind"] == "DeclRefExpr" else None
                        if b is None or b.fam is not None:
                            raise self.unsupported("argument for modified parameter '%s' of %s" % (m, name), n)
                        comps.update({(b.id, "data"), (b.id, "init")})
            for c in n.get("inner", []):
                walk(c)
        for n in nodes:
            walk(n)
        return scal, comps

    # ------------------------------------------------------------------ expressions
    def callee_name(self, call):
        f = _strip_all_casts(call["inner"][0])
        if f["kind"] != "DeclRefExpr" or f["referencedDecl"]["kind"] != "FunctionDecl":
            raise self.unsupported("indirect call", call)
        return f["referencedDecl"]["name"]

    def param_names(self, name, c):
        if "params" in c:
            return list(c["params"])
        p = self.unit.protos.get(name)
        if p is None:
            raise self.unsupported("no prototype for %s" % name)
        return [x[0] for x in p["params"]]

    def truth(self, v, st):
        if v.b is not None:
            return v.b
        if v.kind == "int":
            return v.t != 0
        if v.kind == "dbl":
            return fresh("dblcond", BoolS)
        raise self.unsupported("truth value of %s" % v.kind)

    def guarded(self, st, cond, fn):
        n0 = len(st.pc)
        st.pc.append(cond)
        st.guard += 1
        try:
            r = fn()
        finally:
            st.guard -= 1
        new = st.pc[n0 + 1:]
        del st.pc[n0:]
        st.pc.extend(z3.Implies(cond, f) for f in new)
        return r

    def side_effect(self, st, node):
        if st.guard and not self.pure:
            raise self.unsupported("side effect in a conditionally evaluated operand (?: && ||)", node)

    def lv(self, n, st):
        k = n["kind"]
        if k == "ParenExpr":
            return self.lv(n["inner"][0], st)
        if k == "DeclRefExpr":
            name = n["referencedDecl"]["name"]
            if name not in st.env:
                raise self.unsupported("reference to '%s', which is not a parameter or local" % name, n)
            return ("var", name)
        if k == "ArraySubscriptExpr":
            base = self.ev(n["inner"][0], st)
            idx = self.ev(n["inner"][1], st)
            if base.kind != "ptr" or idx.kind != "int":
                raise self.unsupported("subscript of %s by %s" % (base.kind, idx.kind), n)
            return ("elem", base.t, idx.t)
        raise self.unsupported("lvalue of kind %s" % k, n)

    def load(self, l, st, node):
        if l[0] == "var":
            v = st.env[l[1]]
            if v is not None and v.kind == "opq":
                self.oblige("init_local", node, True, st, "'%s' is written before it is read" % l[1])
            if v is None:
                self.oblige("init_local", node, False, st, "'%s' is written before it is read" % l[1])
                t = st.types[l[1]]
                if t in INTEGRAL:
                    v = V("int", fresh(l[1], IntS), t)
                    self.range_fact(st, v.t, t)
                elif t == "double":
                    v = V("dbl", None, t)
                elif t == "opaque":
                    v = V("opq", None, t)
                else:
                    raise self.unsupported("use of unbound pointer '%s'" % l[1], node)
                st.env[l[1]] = v
            return v
        return self.access(l[1], l[2], st, node, False, None)

    def access(self, ref, idx, st, node, write, value):
        if ref[0] == "blk":
            b = st.blocks[ref[1]]
            if b.status == "freed":
                self.oblige("use_after_free", node, False, st, "block of '%s' was freed" % b.name)
            self.oblige("bounds", node, z3.And(idx >= 0, idx < b.len), st,
                        "%s of %s[%s]" % ("write" if write else "read", b.name, z3.simplify(idx)))
            if write:
                self.side_effect(st, node)
                if b.status == "param" and b.name not in self.modifies:
                    self.oblige("frame", node, False, st, "write to '%s', which is not in modifies" % b.name)
                if b.fam is not None:
                    raise self.unsupported("pointer stored into an array of pointers other than from malloc/realloc", node)
                b.init = z3.Store(b.init, idx, z3.BoolVal(True))
                if b.data is not None:
                    if value.kind != "int":
                        raise self.unsupported("non-integer stored into integer array", node)
                    b.data = z3.Store(b.data, idx, value.t)
                return None
            self.oblige("init", node, z3.Select(b.init, idx), st, "%s[%s] is read" % (b.name, z3.simplify(idx)))
            if b.fam is not None:
                return V("ptr", ("cell", b.id, idx), b.elem)
            if b.data is None:
                return V("dbl", None, "double")
            t = z3.Select(b.data, idx)
            self.range_fact(st, t, b.elem)
            return V("int", t, b.elem)
        o = st.blocks[ref[1]]
        c = ref[2]
        fam = o.fam
        if o.status == "freed":
            self.oblige("use_after_free", node, False, st, "block of '%s' was freed" % o.name)
        self.oblige("alive", node, z3.Select(fam["sub_alive"], c), st, "%s[%s] is dereferenced" % (o.name, z3.simplify(c)))
        # a live row is an object: it came from malloc/realloc, whose size was checked (alloc_size)
        rl = z3.Select(fam["sub_len"], c)
        st.pc.append(z3.And(rl >= 0, rl * sizeof_ctype(fam["elem"], self.sizes) <= 2 ** 63 - 1))
        self.oblige("bounds", node, z3.And(idx >= 0, idx < z3.Select(fam["sub_len"], c)), st,
                    "%s of %s[%s][%s]" % ("write" if write else "read", o.name, z3.simplify(c), z3.simplify(idx)))
        row_init = z3.Select(fam["sub_init"], c)
        row = z3.Select(fam["sub_data"], c)
        if write:
            self.side_effect(st, node)
            if o.status == "param" and o.name not in self.modifies:
                self.oblige("frame", node, False, st, "write to a row of '%s', which is not in modifies" % o.name)
            fam["sub_init"] = z3.Store(fam["sub_init"], c, z3.Store(row_init, idx, z3.BoolVal(True)))
            fam["sub_data"] = z3.Store(fam["sub_data"], c, z3.Store(row, idx, value.t))
            return None
        self.oblige("init", node, z3.Select(row_init, idx), st, "%s[%s][%s] is read" % (o.name, z3.simplify(c), z3.simplify(idx)))
        t = z3.Select(row, idx)
        self.range_fact(st, t, fam["elem"])
        return V("int", t, fam["elem"])

    def store(self, l, v, st, node):
        self.side_effect(st, node)
        if l[0] == "var":
            t = st.types[l[1]]
            if t.startswith("ptr:"):
                raise self.unsupported("pointer assignment other than from malloc/realloc (aliasing is not modelled)", node)
            st.env[l[1]] = v
            return
        self.access(l[1], l[2], st, node, True, v)

    def convert(self, v, to, st, node):
        """integral conversion to C type `to`"""
        if v.kind != "int":
            raise self.unsupported("integral cast of %s" % v.kind, node)
        if to in SIGNED:
            lo, hi = self.range_of(to)
            flo, fhi = self.range_of(v.ct) if v.ct in INTEGRAL else (None, None)
            if z3.is_int_value(v.t) and lo <= v.t.as_long() <= hi:
                return V("int", v.t, to, v.b)
            if flo is not None and lo <= flo and fhi <= hi:
                return V("int", v.t, to, v.b)
            self.oblige("narrow", node, z3.And(v.t >= lo, v.t <= hi), st, "%s converted to %s" % (v.ct, to))
            return V("int", v.t, to, v.b)
        if to in UNSIGNED:
            lo, hi = self.range_of(to)
            if z3.is_int_value(v.t) and 0 <= v.t.as_long() <= hi:
                return V("int", v.t, to)
            u = fresh("u", IntS)        # conversion to unsigned is modular: always defined
            st.pc.append(z3.And(u >= 0, u <= hi, z3.Implies(z3.And(v.t >= 0, v.t <= hi), u == v.t)))
            return V("int", u, to)
        raise self.unsupported("integral cast to %s" % to, node)

    def ev(self, n, st):
        k = n["kind"]
        if k == "ParenExpr":
            return self.ev(n["inner"][0], st)
        if k == "IntegerLiteral":
            return V("int", z3.IntVal(int(n["value"])), ctype(n))
        if k == "FloatingLiteral":
            return V("dbl", None, "double")
        if k in ("ImplicitCastExpr", "CStyleCastExpr"):
            ck = n["castKind"]
            inner = n["inner"][0]
            if ck == "LValueToRValue":
                return self.load(self.lv(inner, st), st, inner)
            if ck == "NoOp":
                return self.ev(inner, st)
            if ck == "IntegralCast":
                return self.convert(self.ev(inner, st), ctype(n), st, n)
            if ck in ("IntegralToFloating", "FloatingCast"):
                self.ev(inner, st)
                return V("dbl", None, "double")
            if ck == "NullToPointer":
                return V("null", None, ctype(n))
            if ck == "PointerToIntegral":
                self.ev(inner, st)
                t = ctype(n)
                x = fresh("addr", IntS)
                self.range_fact(st, x, t)
                return V("int", x, t)
            if ck == "BitCast":
                v = self.ev(inner, st)
                if v.kind in ("ptr", "optr", "null"):
                    return v
                raise self.unsupported("bit cast of %s" % v.kind, n)
            raise self.unsupported("cast kind %s here" % ck, n)
        if k == "DeclRefExpr":
            raise self.unsupported("bare reference to '%s' as a value" % n["referencedDecl"]["name"], n)
        if k == "UnaryExprOrTypeTraitExpr":
            return V("int", z3.IntVal(sizeof_ctype(ctype_of_str(n["argType"]["qualType"]), self.sizes)), "ulong")
        if k == "ArraySubscriptExpr":
            raise self.unsupported("array element used as an lvalue in an unexpected place", n)
        if k == "UnaryOperator":
            return self.unary(n, st)
        if k == "BinaryOperator":
            return self.binary(n, st)
        if k == "CompoundAssignOperator":
            return self.compound(n, st)
        if k == "ConditionalOperator":
            c = self.truth(self.ev(n["inner"][0], st), st)
            a = self.guarded(st, c, lambda: self.ev(n["inner"][1], st))
            b = self.guarded(st, z3.Not(c), lambda: self.ev(n["inner"][2], st))
            if a.kind == "int" and b.kind == "int":
                return V("int", z3.If(c, a.t, b.t), ctype(n))
            if a.kind == "dbl" and b.kind == "dbl":
                return V("dbl", None, "double")
            raise self.unsupported("?: over %s/%s" % (a.kind, b.kind), n)
        if k == "CallExpr":
            return self.call(n, st)
        raise self.unsupported("expression of kind %s" % k, n)

    def unary(self, n, st):
        op = n["opcode"]
        e = n["inner"][0]
        if op == "&":
            t = _strip(e, casts=False)
            if t["kind"] == "DeclRefExpr" and st.types.get(t["referencedDecl"]["name"]) == "opaque":
                return V("optr", t["referencedDecl"]["name"], "ptr:opaque")
            raise self.unsupported("address-of anything but a local generator state", n)
        if op in ("++", "--"):
            l = self.lv(e, st)
            old = self.load(l, st, e)
            if old.kind != "int" or old.ct not in SIGNED:
                raise self.unsupported("%s on %s %s" % (op, old.kind, old.ct), n)
            z = old.t + 1 if op == "++" else old.t - 1
            lo, hi = self.range_of(old.ct)
            self.oblige("overflow", n, z3.And(z >= lo, z <= hi), st, "%s in %s" % (self.text(n), old.ct))
            new = V("int", z, old.ct)
            self.store(l, new, st, n)
            return old if n.get("isPostfix") else new
        v = self.ev(e, st)
        if op == "-":
            if v.kind == "dbl":
                return v
            if v.kind == "int" and ctype(n) in SIGNED:
                z = -v.t
                lo, hi = self.range_of(ctype(n))
                if not z3.is_int_value(v.t):
                    self.oblige("overflow", n, z3.And(z >= lo, z <= hi), st, "%s in %s" % (self.text(n), ctype(n)))
                return V("int", z3.simplify(z) if z3.is_int_value(v.t) else z, ctype(n))
            raise self.unsupported("unary minus on %s" % v.ct, n)
        if op == "!":
            b = z3.Not(self.truth(v, st))
            return V("int", z3.If(b, z3.IntVal(1), z3.IntVal(0)), "int", b)
        raise self.unsupported("unary %s" % op, n)

    def arith(self, op, a, b, rt, st, node):
        if a.kind == "dbl" or b.kind == "dbl" or rt == "double":
            return V("dbl", None, "double")
        if a.kind != "int" or b.kind != "int":
            raise self.unsupported("arithmetic on %s, %s" % (a.kind, b.kind), node)
        if rt not in SIGNED:
            raise self.unsupported("arithmetic in type %s (only allocation sizes may be unsigned)" % rt, node)
        if op == "+":
            z = a.t + b.t
        elif op == "-":
            z = a.t - b.t
        elif op == "*":
            z = a.t * b.t
        else:
            raise self.unsupported("integer operator %s" % op, node)
        lo, hi = self.range_of(rt)
        self.oblige("overflow", node, z3.And(z >= lo, z <= hi), st, "%s in %s" % (self.text(node), rt))
        return V("int", z, rt)

    def binary(self, n, st):
        op = n["opcode"]
        L, R = n["inner"]
        if op == "=":
            l = self.lv(L, st)
            t = ctype(n)
            self.assign_to(l, R, st, n, t)
            return V("void")
        if op in ("&&", "||"):
            a = self.truth(self.ev(L, st), st)
            g = a if op == "&&" else z3.Not(a)
            b = self.guarded(st, g, lambda: self.truth(self.ev(R, st), st))
            r = z3.And(a, b) if op == "&&" else z3.Or(a, b)
            return V("int", z3.If(r, z3.IntVal(1), z3.IntVal(0)), "int", r)
        a = self.ev(L, st)
        b = self.ev(R, st)
        if op in ("<", "<=", ">", ">=", "==", "!="):
            if a.kind == "int" and b.kind == "int":
                r = {"<": a.t < b.t, "<=": a.t <= b.t, ">": a.t > b.t, ">=": a.t >= b.t, "==": a.t == b.t, "!=": a.t != b.t}[op]
            elif a.kind in ("int", "dbl") and b.kind in ("int", "dbl"):
                r = fresh("dblcmp", BoolS)
            else:
                raise self.unsupported("comparison of %s with %s" % (a.kind, b.kind), n)
            return V("int", z3.If(r, z3.IntVal(1), z3.IntVal(0)), "int", r)
        if op in ("/", "%"):
            if a.kind == "dbl" or b.kind == "dbl":
                if op == "%":
                    raise self.unsupported("% on a double", n)
                return V("dbl", None, "double")
            return self.intdiv(op, a, b, ctype(n), st, n)
        return self.arith(op, a, b, ctype(n), st, n)

    def intdiv(self, op, a, b, rt, st, node):
        """C11 6.5.5: the quotient truncates toward zero, (a/b)*b + a%b == a; undefined when b == 0 or when the
        quotient is not representable (INT_MIN / -1) - both become obligations."""
        if a.kind != "int" or b.kind != "int":
            raise self.unsupported("integer %s on %s, %s" % (op, a.kind, b.kind), node)
        if rt not in SIGNED:
            raise self.unsupported("integer %s in type %s" % (op, rt), node)
        lo, hi = self.range_of(rt)
        self.oblige("div_zero", node, b.t != 0, st, "divisor of %s is not zero" % self.text(node))
        self.oblige("overflow", node, z3.Not(z3.And(a.t == lo, b.t == -1)), st,
                    "%s: quotient representable in %s" % (self.text(node), rt))
        aa = z3.If(a.t >= 0, a.t, -a.t)
        bb = z3.If(b.t >= 0, b.t, -b.t)
        qabs = aa / bb                    # z3 integer division; both operands non-negative, so it is the floor
        q = z3.If((a.t >= 0) == (b.t >= 0), qabs, -qabs)
        if op == "/":
            return V("int", q, rt)
        return V("int", a.t - b.t * q, rt)

    def compound(self, n, st):
        op = n["opcode"][0]
        L, R = n["inner"]
        l = self.lv(L, st)
        old = self.load(l, st, L)
        r = self.ev(R, st)
        rt = ctype_of_str(n["computeResultType"]["qualType"])
        lt = ctype(n)
        if rt == "double":
            if lt != "double":
                raise self.unsupported("double result converted to %s" % lt, n)
            self.store(l, V("dbl", None, "double"), st, n)
            return V("dbl", None, "double")
        a = old if old.ct == rt else self.convert(old, rt, st, n)
        z = self.arith(op, a, r, rt, st, n)
        if lt != rt:
            z = self.convert(z, lt, st, n)
        self.store(l, z, st, n)
        return z

    # ------------------------------------------------------------------ assignment, allocation
    def assign_to(self, l, rhs, st, node, t):
        r = _strip(rhs, casts=False)
        inner = r
        while inner["kind"] in ("CStyleCastExpr", "ImplicitCastExpr") and inner.get("castKind") == "BitCast" or inner["kind"] == "ParenExpr":
            inner = inner["inner"][0]
        if inner["kind"] == "CallExpr" and self.callee_name(inner) in ("malloc", "realloc"):
            return self.alloc(l, inner, st, node, t)
        if t.startswith("ptr:"):
            raise self.unsupported("pointer assignment other than from malloc/realloc (aliasing is not modelled)", node)
        v = self.ev(rhs, st)
        if t == "opaque":
            if v.kind != "opq":
                raise self.unsupported("generator state assigned from %s" % v.kind, node)
        elif t == "double":
            v = V("dbl", None, "double")
        elif v.kind != "int":
            raise self.unsupported("assignment of %s to %s" % (v.kind, t), node)
        elif v.ct != t:
            v = self.convert(v, t, st, node)
        self.store(l, v, st, node)

    def alloc_count(self, size, st, node):
        """size argument of malloc/realloc: E * sizeof(T) | sizeof(T) * E | sizeof(T).  Returns (count, sizeof)"""
        s = _strip(size, casts=False)
        if s["kind"] == "UnaryExprOrTypeTraitExpr":
            return z3.IntVal(1), sizeof_ctype(ctype_of_str(s["argType"]["qualType"]), self.sizes)
        if s["kind"] == "BinaryOperator" and s["opcode"] == "*":
            a, b = (_strip(x, casts=False) for x in s["inner"])
            if b["kind"] != "UnaryExprOrTypeTraitExpr":
                a, b = b, a
            if b["kind"] == "UnaryExprOrTypeTraitExpr" and a["kind"] == "ImplicitCastExpr" and a["castKind"] == "IntegralCast":
                e = self.ev(a["inner"][0], st)
                if e.kind == "int" and e.ct in SIGNED:
                    return e.t, sizeof_ctype(ctype_of_str(b["argType"]["qualType"]), self.sizes)
        raise self.unsupported("allocation size is not of the form  count * sizeof(T)", node)

    def alloc(self, l, call, st, node, t):
        self.side_effect(st, node)
        if st.guard:
            raise self.unsupported("allocation in a conditionally evaluated operand", node)
        fn = self.callee_name(call)
        args = call["inner"][1:]
        if not t.startswith("ptr:"):
            raise self.unsupported("allocation assigned to %s" % t, node)
        elem = t[4:]
        esz = sizeof_ctype(elem, self.sizes)
        count, sz = self.alloc_count(args[-1], st, node)
        minimum = 0 if fn == "malloc" else 1
        self.oblige("alloc_size", call, z3.And(count >= minimum, count * sz <= 2 ** 63 - 1), st,
                    "%s of %s elements of %d bytes" % (fn, z3.simplify(count), sz))
        if sz == esz:
            nlen = count
        elif sz % esz == 0:
            nlen = count * (sz // esz)
        else:
            nlen = (count * sz) / esz
        if fn == "realloc":
            src_txt = self.text(_strip(args[0]))
            if l[0] == "var":
                raise self.unsupported("realloc of a named block", node)
            tgt_node = node["inner"][0] if node["kind"] == "BinaryOperator" else None
            if tgt_node is None or self.text(_strip(tgt_node, casts=False)) != src_txt:
                raise self.unsupported("realloc whose result is not stored back into its own operand (aliasing)", node)
        if l[0] == "var":
            name = l[1]
            cur = st.env.get(name)
            if cur is not None and cur.kind == "ptr" and cur.t[0] == "blk" and st.blocks[cur.t[1]].status == "heap":
                self.oblige("leak_overwrite", node, False, st, "'%s' still owns an unfreed block" % name)
            b = self.new_block(st, name, elem, "heap", True, length=nlen, init=z3.K(IntS, z3.BoolVal(False)))
            if b.fam is not None:
                b.fam["sub_alive"] = z3.K(IntS, z3.BoolVal(False))
            st.env[name] = V("ptr", ("blk", b.id), t)
            return
        ref, idx = l[1], l[2]
        if ref[0] != "blk" or st.blocks[ref[1]].fam is None:
            raise self.unsupported("allocation stored into this lvalue", node)
        o = st.blocks[ref[1]]
        fam = o.fam
        if o.status == "freed":
            self.oblige("use_after_free", node, False, st, "block of '%s' was freed" % o.name)
        if o.status == "param" and o.name not in self.modifies:
            self.oblige("frame", node, False, st, "write to '%s', which is not in modifies" % o.name)
        self.oblige("bounds", node, z3.And(idx >= 0, idx < o.len), st, "write of %s[%s]" % (o.name, z3.simplify(idx)))
        if fn == "malloc":
            self.oblige("leak_overwrite", node, z3.Not(z3.Select(fam["sub_alive"], idx)), st,
                        "%s[%s] must not own a block when it is overwritten" % (o.name, z3.simplify(idx)))
            fam["sub_len"] = z3.Store(fam["sub_len"], idx, nlen)
            fam["sub_init"] = z3.Store(fam["sub_init"], idx, z3.K(IntS, z3.BoolVal(False)))
            fam["sub_alive"] = z3.Store(fam["sub_alive"], idx, z3.BoolVal(True))
            o.init = z3.Store(o.init, idx, z3.BoolVal(True))
        else:
            self.oblige("init", node, z3.Select(o.init, idx), st, "%s[%s] is read (realloc operand)" % (o.name, z3.simplify(idx)))
            self.oblige("alive", node, z3.Select(fam["sub_alive"], idx), st, "realloc of %s[%s]" % (o.name, z3.simplify(idx)))
            old_len = z3.Select(fam["sub_len"], idx)
            old_init = z3.Select(fam["sub_init"], idx)
            ni = fresh("%s.row_init" % o.name, ABool)
            m = fresh("q_m", IntS)
            # realloc keeps the first min(old, new) cells; everything beyond is unwritten
            st.pc.append(z3.ForAll([m], z3.Select(ni, m) == z3.And(z3.Select(old_init, m), m < old_len, m < nlen),
                                   patterns=[z3.Select(ni, m)]))
            fam["sub_len"] = z3.Store(fam["sub_len"], idx, nlen)
            fam["sub_init"] = z3.Store(fam["sub_init"], idx, ni)

    def do_free(self, arg, st, node):
        self.side_effect(st, node)
        if st.guard:
            raise self.unsupported("free in a conditionally evaluated operand", node)
        a = _strip(arg)
        if a["kind"] == "DeclRefExpr":
            name = a["referencedDecl"]["name"]
            v = st.env.get(name)
            if v is None:
                self.oblige("init_local", node, False, st, "'%s' is freed before it is written" % name)
                return V("void")
            if v.kind != "ptr" or v.t[0] != "blk":
                raise self.unsupported("free of %s" % v.kind, node)
            b = st.blocks[v.t[1]]
            self.oblige("double_free", node, b.status != "freed", st, "block of '%s' is not already freed" % name)
            self.oblige("free_nonheap", node, b.status != "param", st, "'%s' was allocated here, not passed in by the caller" % name)
            if b.status == "heap":
                if b.fam is not None:
                    k = fresh("sk_s", IntS)
                    self.oblige("leak_inner", node, z3.Implies(z3.And(k >= 0, k < b.len), z3.Not(z3.Select(b.fam["sub_alive"], k))),
                                st, "every row of '%s' is freed before '%s' itself" % (name, name))
                b.status = "freed"
            return V("void")
        if a["kind"] == "ArraySubscriptExpr":
            l = self.lv(a, st)
            ref, idx = l[1], l[2]
            if ref[0] != "blk" or st.blocks[ref[1]].fam is None:
                raise self.unsupported("free of this operand", node)
            o = st.blocks[ref[1]]
            if o.status == "freed":
                self.oblige("use_after_free", node, False, st, "block of '%s' was freed" % o.name)
            if o.status == "param" and o.name not in self.modifies:
                self.oblige("frame", node, False, st, "free of a row of '%s', which is not in modifies" % o.name)
            self.oblige("bounds", node, z3.And(idx >= 0, idx < o.len), st, "read of %s[%s]" % (o.name, z3.simplify(idx)))
            self.oblige("init", node, z3.Select(o.init, idx), st, "%s[%s] is read" % (o.name, z3.simplify(idx)))
            self.oblige("double_free", node, z3.Select(o.fam["sub_alive"], idx), st,
                        "%s[%s] owns a live block when it is freed" % (o.name, z3.simplify(idx)))
            o.fam["sub_alive"] = z3.Store(o.fam["sub_alive"], idx, z3.BoolVal(False))
            return V("void")
        raise self.unsupported("free of this operand", node)

    # ------------------------------------------------------------------ calls
    def call(self, n, st):
        name = self.callee_name(n)
        args = n["inner"][1:]
        if name in ("malloc", "realloc"):
            raise self.unsupported("allocation whose result is not directly assigned to a pointer", n)
        if name == "free":
            return self.do_free(args[0], st, n)
        c = self.contracts.get(name)
        if c is None:
            raise self.unsupported("call of '%s', which has no contract" % name, n)
        self.used_contracts.add(name)
        params = self.param_names(name, c)
        if len(params) != len(args):
            raise self.unsupported("call of %s with %d arguments, contract has %d" % (name, len(args), len(params)), n)
        vals = [self.ev(a, st) for a in args]
        names = dict(zip(params, vals))
        mods = c.get("modifies", [])
        if (mods or c.get("writes_opaque")) and st.guard and not self.pure:
            raise self.unsupported("call with side effects in a conditionally evaluated operand", n)
        for p, v in names.items():
            if v.kind == "ptr":
                if v.t[0] != "blk":
                    raise self.unsupported("row pointer passed to a function", n)
                b = st.blocks[v.t[1]]
                if b.status == "freed":
                    self.oblige("use_after_free", n, False, st, "freed block of '%s' passed to %s" % (b.name, name))
            elif v.kind == "optr":
                if v.t is not None and p not in c.get("writes_opaque", []):
                    self.oblige("init_local", n, st.env.get(v.t) is not None, st,
                                "generator state '%s' is initialised before its address is passed to %s" % (v.t, name))
            elif v.kind == "null":
                if p not in c.get("nullable", []):
                    raise self.unsupported("null pointer passed for '%s' of %s" % (p, name), n)
        sp = self.spec(st, names=names)
        for i, cl in enumerate(c.get("requires", [])):
            try:
                g = sp.goal(clause_text(cl))
            except SpecError as e:
                raise self.unsupported("requires of %s: %s" % (name, e), n)
            self.oblige("pre", n, g, st, "%s requires[%d]: %s" % (name, i, clause_text(cl)))
        old_state = st.copy() if (mods and any("old(" in clause_text(e) for e in c.get("ensures", []))) else None
        for m in mods:
            v = names[m]
            if v.kind != "ptr":
                raise self.unsupported("modified parameter '%s' of %s is not an array" % (m, name), n)
            b = st.blocks[v.t[1]]
            if b.fam is not None:
                raise self.unsupported("callee modifying an array of pointers", n)
            for p2, v2 in names.items():
                if p2 != m and v2.kind == "ptr" and v2.t == v.t:
                    self.oblige("noalias", n, False, st, "'%s' is passed for both '%s' and '%s' of %s" % (b.name, m, p2, name))
            if b.status == "param" and b.name not in self.modifies:
                self.oblige("frame", n, False, st, "%s modifies '%s', which is not in modifies of %s" % (name, b.name, self.func.name))
            if b.data is not None:
                b.data = fresh("%s.data" % b.name, AInt)
            b.init = fresh("%s.init" % b.name, ABool)
        for p in c.get("writes_opaque", []):
            v = names[p]
            if v.kind == "optr" and v.t is not None:
                st.env[v.t] = V("opq", None, "opaque")
        proto = self.unit.protos.get(name)
        rt = c.get("returns")
        if rt is None:
            if proto is None:
                raise self.unsupported("no prototype for %s" % name, n)
            rt = ctype_of_str(proto["type"].split("(")[0])
        if rt in INTEGRAL:
            x = fresh("%s.ret" % name, IntS)
            self.range_fact(st, x, rt)
            res = V("int", x, rt)
        elif rt == "double":
            res = V("dbl", None, "double")
        elif rt == "opaque":
            res = V("opq", None, "opaque")
        elif rt == "void":
            res = V("void")
        else:
            raise self.unsupported("return type %s of %s" % (rt, name), n)
        old = self.spec(old_state, names=names) if old_state is not None else None
        sp2 = self.spec(st, names=names, old=old, result=res if res.kind == "int" else None)
        for cl in c.get("ensures", []):
            try:
                st.pc.append(sp2.hyp(clause_text(cl)))
            except SpecError as e:
                raise self.unsupported("ensures of %s: %s" % (name, e), n)
        return res
