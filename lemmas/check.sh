#!/usr/bin/env bash
# Re-check QvcLemmas.lean with Lean 4 + Mathlib (offline, no lake project needed).
# exit 0 + writes .checked.json on success; exit 1 otherwise.
set -u
cd "$(dirname "${BASH_SOURCE[0]}")" || exit 1
SRC=QvcLemmas.lean
OUT=.checked.json
LOG=$(mktemp)
trap 'rm -f "$LOG"' EXIT

fail() { echo "check.sh: FAIL: $*" >&2; rm -f "$OUT"; exit 1; }

command -v lean >/dev/null 2>&1 || fail "lean not on PATH"
[ -f "$SRC" ] || fail "$SRC missing"

# 1. source-level scan: forbidden constructs (outside of comments these never appear)
python3 - "$SRC" <<'EOF' || fail "forbidden construct in source"
import re, sys
src = open(sys.argv[1]).read()
# strip block comments (incl. doc comments, nested) and line comments
out, depth, i = [], 0, 0
while i < len(src):
    if src.startswith("/-", i): depth += 1; i += 2; continue
    if depth and src.startswith("-/", i): depth -= 1; i += 2; continue
    if depth == 0: out.append(src[i])
    i += 1
code = re.sub(r"--.*", "", "".join(out))
bad = re.findall(r"\b(sorry|admit|axiom|native_decide|unsafe|implemented_by|extern|ofReduceBool|opaque|set_option\s+debug\S*)\b", code)
if bad:
    print("forbidden tokens:", sorted(set(bad))); sys.exit(1)
EOF

# 2. compile
lean "$SRC" >"$LOG" 2>&1
rc=$?
if [ $rc -ne 0 ]; then cat "$LOG"; fail "lean exited with $rc"; fi
grep -qE "(^|[^A-Za-z])error" "$LOG" && { cat "$LOG"; fail "lean reported an error"; }
grep -q "sorry" "$LOG" && { cat "$LOG"; fail "output mentions sorry/sorryAx"; }

# 3. axiom audit + 4. write .checked.json
python3 - "$SRC" "$LOG" "$OUT" "$(lean --version)" <<'EOF' || fail "axiom audit failed"
import hashlib, json, re, sys
src_path, log_path, out_path, leanver = sys.argv[1:5]
src = open(src_path, "rb").read()
log = open(log_path).read()
flat = re.sub(r"\s+", " ", log)
allowed = {"propext", "Classical.choice", "Quot.sound"}
audited, ok = [], True
for m in re.finditer(r"'([^']+)' (does not depend on any axioms|depends on axioms: \[([^\]]*)\])", flat):
    name, axs = m.group(1), m.group(3)
    used = set(a.strip() for a in axs.split(",")) if axs else set()
    extra = used - allowed
    if extra:
        print(f"{name}: non-standard axioms {sorted(extra)}"); ok = False
    audited.append(name)
# every theorem declared in the file must have been audited
declared = ["Qvc." + n for n in re.findall(r"^theorem\s+(\S+)", src.decode(), re.M)]
missing = [n for n in declared if n not in audited]
if missing:
    print("theorems without a #print axioms audit:", missing); ok = False
unknown = [n for n in audited if n not in declared]
if unknown:
    print("audited names that are not theorems of this file:", unknown); ok = False
if not declared:
    print("no theorems found"); ok = False
if not ok:
    sys.exit(1)
json.dump({"sha256": hashlib.sha256(src).hexdigest(),
           "theorems": declared,
           "lean": leanver.strip()}, open(out_path, "w"), indent=1)
open(out_path, "a").write("\n")
print(f"check.sh: OK  {len(declared)} theorems, axioms ⊆ {{propext, Classical.choice, Quot.sound}}")
print(f"check.sh: sha256 {hashlib.sha256(src).hexdigest()}  -> {out_path}")
EOF
exit 0
