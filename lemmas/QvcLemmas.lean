/-
  QvcLemmas.lean — mathematical lemmas assumed by the qvc SMT-based verifier,
  proved in Lean 4 + Mathlib.  No `sorry`, no custom axioms (see the
  `#print axioms` block at the end; `check.sh` enforces this).

  Setting.  Labels are elements of a type `α`; an assignment is `x : α → R`
  for a commutative ring `R` (instantiate `R := ℝ` or `ℚ`).  A key is a
  `List α` (labels with repetitions) and

      mono x k := (k.map x).prod

  is the value of the monomial named by `k` under `x`.
-/
import Mathlib.Algebra.BigOperators.Group.Finset.Basic
import Mathlib.Algebra.BigOperators.Finsupp.Basic
import Mathlib.Algebra.Ring.Parity
import Mathlib.Data.Finsupp.Basic
import Mathlib.Data.List.Sort
import Mathlib.Data.List.Dedup
import Mathlib.Data.Real.Basic
import Mathlib.Tactic.Ring
import Mathlib.Tactic.Abel
import Mathlib.Tactic.Tauto
import Mathlib.Tactic.NormNum
import Mathlib.Tactic.Linarith

namespace Qvc

open List

variable {α : Type*} {R : Type*}

/-- Value of the monomial `k` (list of labels, with repetition) under `x`. -/
def mono [CommRing R] (x : α → R) (k : List α) : R := (k.map x).prod

/-! ## L1 : definition of `mono` -/

section L1
variable [CommRing R] (x : α → R)

theorem mono_nil : mono x [] = 1 := by simp [mono]

theorem mono_singleton (i : α) : mono x [i] = x i := by simp [mono]

theorem mono_cons (i : α) (k : List α) : mono x (i :: k) = x i * mono x k := by
  simp [mono]

theorem mono_append (a b : List α) : mono x (a ++ b) = mono x a * mono x b := by
  simp [mono]

/-- `mono` only depends on the multiset of labels. -/
theorem mono_perm {a b : List α} (h : a.Perm b) : mono x a = mono x b :=
  (h.map x).prod_eq

end L1

/-! ## L2 : range of `mono` -/

section L2
variable [CommRing R] {x : α → R}

theorem mono_bool_range (hx : ∀ i, x i = 0 ∨ x i = 1) (k : List α) :
    mono x k = 0 ∨ mono x k = 1 := by
  induction k with
  | nil => right; exact mono_nil x
  | cons a l ih =>
    rw [mono_cons]
    rcases hx a with ha | ha
    · left; rw [ha, zero_mul]
    · rw [ha, one_mul]; exact ih

theorem mono_spin_range (hx : ∀ i, x i = 1 ∨ x i = -1) (k : List α) :
    mono x k = 1 ∨ mono x k = -1 := by
  induction k with
  | nil => left; exact mono_nil x
  | cons a l ih =>
    rw [mono_cons]
    rcases hx a with ha | ha <;> rcases ih with hl | hl <;> rw [ha, hl] <;> simp

theorem mono_ne_zero_iff [NoZeroDivisors R] [Nontrivial R] (x : α → R) (k : List α) :
    mono x k ≠ 0 ↔ ∀ i ∈ k, x i ≠ 0 := by
  induction k with
  | nil => simp [mono]
  | cons a l ih => rw [mono_cons, mul_ne_zero_iff, ih]; simp

theorem mono_eq_zero_iff [NoZeroDivisors R] [Nontrivial R] (x : α → R) (k : List α) :
    mono x k = 0 ↔ ∃ i ∈ k, x i = 0 := by
  rw [← not_iff_not, ← ne_eq, mono_ne_zero_iff]
  simp

/-- Boolean case without any hypothesis on zero divisors:
the monomial is `1` iff every member is `1` (for `0 ≠ 1`). -/
theorem mono_bool_eq_one_iff [Nontrivial R] (hx : ∀ i, x i = 0 ∨ x i = 1) (k : List α) :
    mono x k = 1 ↔ ∀ i ∈ k, x i = 1 := by
  induction k with
  | nil => simp [mono]
  | cons a l ih =>
    rw [mono_cons]
    rcases hx a with ha | ha
    · simp [ha]
    · simp [ha, ih]

end L2

/-! ## L2' : spin monomial = (-1)^(number of -1 members) -/

section L2'
variable [CommRing R] [DecidableEq R] {x : α → R}

theorem mono_spin_negcount (hx : ∀ i, x i = 1 ∨ x i = -1) (k : List α) :
    mono x k = (-1) ^ (k.countP (fun i => decide (x i = -1))) := by
  induction k with
  | nil => simp [mono]
  | cons a l ih =>
    rw [mono_cons, ih]
    by_cases h : x a = -1
    · rw [List.countP_cons_of_pos (by simpa using h), pow_succ, h]; ring
    · rw [List.countP_cons_of_neg (by simpa using h)]
      rcases hx a with ha | ha
      · rw [ha, one_mul]
      · exact absurd ha h

/-- In a ring where `1 ≠ -1` (e.g. `ℝ`, `ℚ`, `ℤ`): the spin monomial is `1` iff the
number of `-1` members (with repetition) is even. -/
theorem mono_spin_eq_one_iff (h2 : (1 : R) ≠ -1) (hx : ∀ i, x i = 1 ∨ x i = -1)
    (k : List α) :
    mono x k = 1 ↔ Even (k.countP (fun i => decide (x i = -1))) := by
  rw [mono_spin_negcount hx]
  constructor
  · intro h
    by_contra hne
    rw [Nat.not_even_iff_odd] at hne
    rw [hne.neg_one_pow] at h
    exact h2 h.symm
  · intro h; exact h.neg_one_pow

end L2'

/-! ## Count form of `mono` (the bridge used by L3 and L4) -/

section Count
variable [CommRing R] [DecidableEq α]

theorem mono_eq_prod_count (x : α → R) (k : List α) :
    mono x k = ∏ i ∈ k.toFinset, x i ^ k.count i :=
  Finset.prod_list_map_count k x

end Count

/-! ## L3 : boolean idempotence -/

section L3
variable [CommRing R] [DecidableEq α] {x : α → R}

theorem bool_pow_pos {r : R} (hr : r = 0 ∨ r = 1) {n : ℕ} (hn : 0 < n) : r ^ n = r := by
  rcases hr with h | h
  · rw [h, zero_pow (Nat.pos_iff_ne_zero.mp hn)]
  · rw [h, one_pow]

/-- For boolean `x`, `mono x k` is the product of `x` over the *set* of members. -/
theorem mono_bool_eq_prod_toFinset (hx : ∀ i, x i = 0 ∨ x i = 1) (k : List α) :
    mono x k = ∏ i ∈ k.toFinset, x i := by
  rw [mono_eq_prod_count]
  refine Finset.prod_congr rfl (fun i hi => ?_)
  exact bool_pow_pos (hx i) (List.count_pos_iff.mpr (List.mem_toFinset.mp hi))

theorem mono_bool_same_members (hx : ∀ i, x i = 0 ∨ x i = 1) {k k' : List α}
    (h : ∀ i, i ∈ k ↔ i ∈ k') : mono x k = mono x k' := by
  rw [mono_bool_eq_prod_toFinset hx, mono_bool_eq_prod_toFinset hx]
  have : k.toFinset = k'.toFinset := by
    ext i; simp [h i]
  rw [this]

end L3

/-! ## L4 : spin parity -/

section L4
variable [CommRing R] [DecidableEq α] {x : α → R}

theorem spin_sq {r : R} (hr : r = 1 ∨ r = -1) : r * r = 1 := by
  rcases hr with h | h <;> rw [h] <;> ring

theorem spin_pow {r : R} (hr : r = 1 ∨ r = -1) (n : ℕ) :
    r ^ n = if Odd n then r else 1 := by
  have h2 : r ^ 2 = 1 := by rw [pow_two]; exact spin_sq hr
  split_ifs with h
  · obtain ⟨m, rfl⟩ := h
    rw [pow_succ, pow_mul, h2, one_pow, one_mul]
  · rw [Nat.not_odd_iff_even] at h
    obtain ⟨m, rfl⟩ := h
    rw [← two_mul, pow_mul, h2, one_pow]

/-- For spin `x`, `mono x k` is the product of `x` over the members of odd multiplicity. -/
theorem mono_spin_eq_prod_odd (hx : ∀ i, x i = 1 ∨ x i = -1) (k : List α) :
    mono x k = ∏ i ∈ k.toFinset.filter (fun i => Odd (k.count i)), x i := by
  rw [mono_eq_prod_count, Finset.prod_filter]
  exact Finset.prod_congr rfl (fun i _ => spin_pow (hx i) _)

theorem mono_spin_parity (hx : ∀ i, x i = 1 ∨ x i = -1) {k k' : List α}
    (hnd : k'.Nodup) (h : ∀ i, i ∈ k' ↔ Odd (k.count i)) : mono x k' = mono x k := by
  rw [mono_spin_eq_prod_odd hx k]
  have hset : k.toFinset.filter (fun i => Odd (k.count i)) = k'.toFinset := by
    ext i
    simp only [Finset.mem_filter, List.mem_toFinset, h i]
    constructor
    · exact fun hh => hh.2
    · intro hodd
      refine ⟨?_, hodd⟩
      apply List.count_pos_iff.mp
      obtain ⟨m, hm⟩ := hodd
      omega
  rw [hset, List.prod_toFinset x hnd, mono]

end L4

/-! ## Canonical keys `bsq` (boolean squash) and `ssq` (spin squash) -/

section Sq
variable [LinearOrder α]

/-- the comparison used for sorting keys -/
def leb (a b : α) : Bool := decide (a ≤ b)

theorem leb_iff {a b : α} : leb a b = true ↔ a ≤ b := by simp [leb]

theorem leb_trans (a b c : α) : leb a b = true → leb b c = true → leb a c = true := by
  simp only [leb_iff]; exact le_trans

theorem leb_total (a b : α) : (leb a b || leb b a) = true := by
  simp only [Bool.or_eq_true, leb_iff]; exact le_total a b

/-- `l.mergeSort leb` is sorted w.r.t. `≤`. -/
theorem pairwise_sort (l : List α) : (l.mergeSort leb).Pairwise (· ≤ ·) := by
  have := List.pairwise_mergeSort (le := leb) leb_trans leb_total l
  simpa only [leb_iff] using this

theorem sort_eq_self {l : List α} (h : l.Pairwise (· ≤ ·)) : l.mergeSort leb = l := by
  apply List.mergeSort_of_pairwise
  simpa only [leb_iff] using h

/-- A sorted (`≤`) duplicate-free list is determined by its set of members. -/
theorem sorted_nodup_unique {l₁ l₂ : List α} (s₁ : l₁.Pairwise (· ≤ ·)) (n₁ : l₁.Nodup)
    (s₂ : l₂.Pairwise (· ≤ ·)) (n₂ : l₂.Nodup) (h : ∀ i, i ∈ l₁ ↔ i ∈ l₂) : l₁ = l₂ := by
  have hp : l₁.Perm l₂ := (List.perm_ext_iff_of_nodup n₁ n₂).mpr h
  exact List.Perm.eq_of_pairwise (fun a b _ _ hab hba => le_antisymm hab hba) s₁ s₂ hp

/-- boolean canonical key: sorted duplicate-free list of the members of `k` -/
def bsq (k : List α) : List α := (k.dedup).mergeSort leb

/-- spin canonical key: sorted duplicate-free list of the members of `k` that occur
an odd number of times -/
def ssq (k : List α) : List α :=
  ((k.dedup).filter (fun i => k.count i % 2 = 1)).mergeSort leb

/-! ### bsq -/

theorem bsq_perm (k : List α) : (bsq k).Perm k.dedup := List.mergeSort_perm _ _

theorem mem_bsq {k : List α} {i : α} : i ∈ bsq k ↔ i ∈ k := by
  rw [(bsq_perm k).mem_iff, List.mem_dedup]

theorem bsq_subset (k : List α) : ∀ i ∈ bsq k, i ∈ k := fun _ h => mem_bsq.mp h

theorem bsq_nodup (k : List α) : (bsq k).Nodup :=
  (bsq_perm k).nodup_iff.mpr (List.nodup_dedup k)

theorem bsq_sorted (k : List α) : (bsq k).Pairwise (· ≤ ·) := pairwise_sort _

theorem bsq_sorted_lt (k : List α) : (bsq k).Pairwise (· < ·) := by
  have h1 := bsq_sorted k
  have h2 : (bsq k).Pairwise (· ≠ ·) := bsq_nodup k
  exact (h1.and h2).imp (fun h => lt_of_le_of_ne h.1 h.2)

theorem bsq_length_le (k : List α) : (bsq k).length ≤ k.length := by
  rw [(bsq_perm k).length_eq]
  exact (List.dedup_sublist k).length_le

theorem bsq_of_sorted_nodup {k : List α} (hs : k.Pairwise (· ≤ ·)) (hn : k.Nodup) :
    bsq k = k := by
  rw [bsq, hn.dedup, sort_eq_self hs]

theorem bsq_idem (k : List α) : bsq (bsq k) = bsq k :=
  bsq_of_sorted_nodup (bsq_sorted k) (bsq_nodup k)

theorem bsq_of_length_le_one {k : List α} (h : k.length ≤ 1) : bsq k = k := by
  apply bsq_of_sorted_nodup
  · match k, h with
    | [], _ => exact List.Pairwise.nil
    | [a], _ => exact List.pairwise_singleton _ a
  · match k, h with
    | [], _ => exact List.nodup_nil
    | [a], _ => exact List.nodup_singleton a

/-- `bsq k` is *the* sorted duplicate-free list with the same members as `k`. -/
theorem bsq_unique {k l : List α} (hs : l.Pairwise (· ≤ ·)) (hn : l.Nodup)
    (h : ∀ i, i ∈ l ↔ i ∈ k) : l = bsq k :=
  sorted_nodup_unique hs hn (bsq_sorted k) (bsq_nodup k) (fun i => by rw [h i, mem_bsq])

/-- Two keys have the same canonical boolean key iff they have the same members. -/
theorem bsq_eq_iff {k k' : List α} : bsq k = bsq k' ↔ ∀ i, i ∈ k ↔ i ∈ k' := by
  constructor
  · intro h i; rw [← mem_bsq (k := k), h, mem_bsq]
  · intro h
    exact sorted_nodup_unique (bsq_sorted k) (bsq_nodup k) (bsq_sorted k') (bsq_nodup k')
      (fun i => by rw [mem_bsq, mem_bsq, h i])

/-! ### ssq -/

theorem ssq_perm (k : List α) :
    (ssq k).Perm ((k.dedup).filter (fun i => k.count i % 2 = 1)) := List.mergeSort_perm _ _

theorem mem_ssq {k : List α} {i : α} : i ∈ ssq k ↔ Odd (k.count i) := by
  rw [(ssq_perm k).mem_iff, List.mem_filter, List.mem_dedup, Nat.odd_iff]
  simp only [decide_eq_true_eq, and_iff_right_iff_imp]
  intro h
  apply List.count_pos_iff.mp
  omega

theorem ssq_subset (k : List α) : ∀ i ∈ ssq k, i ∈ k := by
  intro i hi
  apply List.count_pos_iff.mp
  obtain ⟨m, hm⟩ := mem_ssq.mp hi
  omega

theorem ssq_nodup (k : List α) : (ssq k).Nodup :=
  (ssq_perm k).nodup_iff.mpr ((List.nodup_dedup k).filter _)

theorem ssq_sorted (k : List α) : (ssq k).Pairwise (· ≤ ·) := pairwise_sort _

theorem ssq_sorted_lt (k : List α) : (ssq k).Pairwise (· < ·) := by
  have h1 := ssq_sorted k
  have h2 : (ssq k).Pairwise (· ≠ ·) := ssq_nodup k
  exact (h1.and h2).imp (fun h => lt_of_le_of_ne h.1 h.2)

theorem ssq_length_le (k : List α) : (ssq k).length ≤ k.length := by
  rw [(ssq_perm k).length_eq]
  exact ((List.filter_sublist).trans (List.dedup_sublist k)).length_le

theorem ssq_of_sorted_nodup {k : List α} (hs : k.Pairwise (· ≤ ·)) (hn : k.Nodup) :
    ssq k = k := by
  have hf : (k.dedup).filter (fun i => k.count i % 2 = 1) = k := by
    rw [hn.dedup, List.filter_eq_self]
    intro a ha
    rw [List.count_eq_one_of_mem hn ha]
    rfl
  rw [ssq, hf, sort_eq_self hs]

theorem ssq_idem (k : List α) : ssq (ssq k) = ssq k :=
  ssq_of_sorted_nodup (ssq_sorted k) (ssq_nodup k)

theorem ssq_of_length_le_one {k : List α} (h : k.length ≤ 1) : ssq k = k := by
  apply ssq_of_sorted_nodup
  · match k, h with
    | [], _ => exact List.Pairwise.nil
    | [a], _ => exact List.pairwise_singleton _ a
  · match k, h with
    | [], _ => exact List.nodup_nil
    | [a], _ => exact List.nodup_singleton a

/-- `ssq k` is *the* sorted duplicate-free list of the odd-multiplicity members of `k`. -/
theorem ssq_unique {k l : List α} (hs : l.Pairwise (· ≤ ·)) (hn : l.Nodup)
    (h : ∀ i, i ∈ l ↔ Odd (k.count i)) : l = ssq k :=
  sorted_nodup_unique hs hn (ssq_sorted k) (ssq_nodup k) (fun i => by rw [h i, mem_ssq])

/-- Two keys have the same canonical spin key iff all multiplicities agree mod 2. -/
theorem ssq_eq_iff {k k' : List α} :
    ssq k = ssq k' ↔ ∀ i, (Odd (k.count i) ↔ Odd (k'.count i)) := by
  constructor
  · intro h i; rw [← mem_ssq (k := k), h, mem_ssq]
  · intro h
    exact sorted_nodup_unique (ssq_sorted k) (ssq_nodup k) (ssq_sorted k') (ssq_nodup k')
      (fun i => by rw [mem_ssq, mem_ssq, h i])

/-! ### value preservation (corollaries of L3 / L4) -/

theorem mono_bsq [CommRing R] {x : α → R} (hx : ∀ i, x i = 0 ∨ x i = 1) (k : List α) :
    mono x (bsq k) = mono x k :=
  mono_bool_same_members hx (fun _ => mem_bsq)

theorem mono_ssq [CommRing R] {x : α → R} (hx : ∀ i, x i = 1 ∨ x i = -1) (k : List α) :
    mono x (ssq k) = mono x k :=
  mono_spin_parity hx (ssq_nodup k) (fun _ => mem_ssq)

/-- any property of all members of `k` is inherited by the canonical keys
(used for `matvalid`). -/
theorem forall_mem_bsq {P : α → Prop} {k : List α} (h : ∀ i ∈ k, P i) : ∀ i ∈ bsq k, P i :=
  fun i hi => h i (bsq_subset k i hi)

theorem forall_mem_ssq {P : α → Prop} {k : List α} (h : ∀ i ∈ k, P i) : ∀ i ∈ ssq k, P i :=
  fun i hi => h i (ssq_subset k i hi)

omit [LinearOrder α] in
theorem forall_mem_append_iff {P : α → Prop} (a b : List α) :
    (∀ i ∈ a ++ b, P i) ↔ (∀ i ∈ a, P i) ∧ (∀ i ∈ b, P i) := by
  simp only [List.mem_append]
  constructor
  · exact fun h => ⟨fun i hi => h i (Or.inl hi), fun i hi => h i (Or.inr hi)⟩
  · rintro ⟨h1, h2⟩ i (hi | hi)
    · exact h1 i hi
    · exact h2 i hi

/-- the definitions agree with `mergeSort` on the default comparison `fun a b => a ≤ b` -/
theorem bsq_def (k : List α) : bsq k = (k.dedup).mergeSort (fun a b => decide (a ≤ b)) := rfl

theorem ssq_def (k : List α) :
    ssq k = ((k.dedup).filter (fun i => k.count i % 2 = 1)).mergeSort
      (fun a b => decide (a ≤ b)) := rfl

end Sq

/-! ## Small rewriting corollaries used as quantifier-free instances -/

section Dup
variable [CommRing R] {x : α → R}

theorem mono_bool_dup (hx : ∀ i, x i = 0 ∨ x i = 1) (i : α) (k : List α) :
    mono x (i :: i :: k) = mono x (i :: k) := by
  rw [mono_cons, mono_cons, ← mul_assoc]
  rcases hx i with h | h <;> rw [h] <;> simp

theorem mono_spin_dup (hx : ∀ i, x i = 1 ∨ x i = -1) (i : α) (k : List α) :
    mono x (i :: i :: k) = mono x k := by
  rw [mono_cons, mono_cons, ← mul_assoc]
  rcases hx i with h | h <;> rw [h] <;> simp

end Dup

theorem mono_pair [CommRing R] (x : α → R) (i j : α) : mono x [i, j] = x i * x j := by
  simp [mono]

/-! ## Bridge to the verifier's encoding: `zval i = 1 - 2 * xval i`, `negcount` -/

section Bridge
variable [CommRing R] {x : α → R}

/-- the spin assignment attached to a boolean assignment -/
def zval (x : α → R) (i : α) : R := 1 - 2 * x i

theorem zval_spin (hx : ∀ i, x i = 0 ∨ x i = 1) : ∀ i, zval x i = 1 ∨ zval x i = -1 := by
  intro i
  unfold zval
  rcases hx i with h | h
  · left; rw [h]; ring
  · right; rw [h]; ring

/-- `negcount`, in the form the verifier reads it off the source:
`[z[i] for i in k].count(-1)`. -/
theorem negcount_eq_countP [DecidableEq R] (z : α → R) (k : List α) :
    (k.map z).count (-1) = k.countP (fun i => decide (z i = -1)) := by
  rw [List.count_eq_countP, List.countP_map]
  rfl

/-- L2' exactly as instantiated by the verifier:
`smono k = if negcount k % 2 = 0 then 1 else -1`. -/
theorem mono_spin_negcount_ite [DecidableEq R] {z : α → R} (hz : ∀ i, z i = 1 ∨ z i = -1)
    (k : List α) :
    mono z k = if (k.map z).count (-1) % 2 = 0 then 1 else -1 := by
  rw [negcount_eq_countP, mono_spin_negcount hz]
  split_ifs with h
  · exact (Nat.even_iff.mpr h).neg_one_pow
  · exact (Nat.odd_iff.mpr (by omega)).neg_one_pow

end Bridge


/-! ## L5 : finite-sum update law -/

section L5
variable {κ : Type*} {M : Type*} {N : Type*}

/-- Finset-indexed form: changing the value at one index `k ∈ s` changes the sum by
`- t k (old) + t k (new)`.  No hypothesis on `t`. -/
theorem finset_sum_update [DecidableEq κ] [AddCommGroup N] (s : Finset κ) (f : κ → M)
    (k : κ) (c : M) (t : κ → M → N) (hk : k ∈ s) :
    ∑ i ∈ s, t i (Function.update f k c i) = ∑ i ∈ s, t i (f i) - t k (f k) + t k c := by
  rw [← Finset.add_sum_erase s _ hk, ← Finset.add_sum_erase s (fun i => t i (f i)) hk]
  have : ∀ i ∈ s.erase k, t i (Function.update f k c i) = t i (f i) := by
    intro i hi
    rw [Function.update_of_ne (Finset.ne_of_mem_erase hi)]
  rw [Finset.sum_congr rfl this, Function.update_self]
  abel

/-- Finset-indexed form when `k ∉ s`: the sum is unchanged. -/
theorem finset_sum_update_of_notMem [DecidableEq κ] [AddCommMonoid N] (s : Finset κ)
    (f : κ → M) (k : κ) (c : M) (t : κ → M → N) (hk : k ∉ s) :
    ∑ i ∈ s, t i (Function.update f k c i) = ∑ i ∈ s, t i (f i) := by
  refine Finset.sum_congr rfl (fun i hi => ?_)
  have hik : i ≠ k := fun h => hk (by rw [← h]; exact hi)
  rw [Function.update_of_ne hik]

/-- Finitely-supported form (`d : κ →₀ M`, absent keys read as `0`): for an arbitrary
term function with `t i 0 = 0`,
`(d.update k c).sum t = d.sum t - t k (d k) + t k c`. -/
theorem finsupp_sum_update [Zero M] [AddCommGroup N] (d : κ →₀ M) (k : κ) (c : M)
    (t : κ → M → N) (ht : ∀ i, t i 0 = 0) :
    (d.update k c).sum t = d.sum t - t k (d k) + t k c := by
  classical
  have hs1 : (d.update k c).support ⊆ insert k d.support := by
    intro i hi
    by_cases hik : i = k
    · rw [hik]; exact Finset.mem_insert_self _ _
    · apply Finset.mem_insert_of_mem
      rw [Finsupp.mem_support_iff] at hi ⊢
      rwa [Finsupp.update_apply, if_neg hik] at hi
  have hs2 : d.support ⊆ insert k d.support := Finset.subset_insert _ _
  rw [Finsupp.sum_of_support_subset _ hs1 _ (fun i _ => ht i),
    Finsupp.sum_of_support_subset _ hs2 _ (fun i _ => ht i)]
  have := finset_sum_update (insert k d.support) (⇑d) k c t (Finset.mem_insert_self _ _)
  rw [← this]
  refine Finset.sum_congr rfl (fun i _ => ?_)
  rw [Finsupp.coe_update]

/-- Special cases: deleting a key (`c = 0`) and inserting a fresh key (`d k = 0`). -/
theorem finsupp_sum_erase [Zero M] [AddCommGroup N] (d : κ →₀ M) (k : κ)
    (t : κ → M → N) (ht : ∀ i, t i 0 = 0) :
    (d.update k 0).sum t = d.sum t - t k (d k) := by
  rw [finsupp_sum_update d k 0 t ht, ht, add_zero]

theorem finsupp_sum_insert_fresh [Zero M] [AddCommGroup N] (d : κ →₀ M) (k : κ) (c : M)
    (t : κ → M → N) (ht : ∀ i, t i 0 = 0) (hk : d k = 0) :
    (d.update k c).sum t = d.sum t + t k c := by
  rw [finsupp_sum_update d k c t ht, hk, ht, sub_zero]


/-! ### The verifier's dict model: explicit finite domain `s` + total value map `f`

`F(d) = ∑ i ∈ dom d, t i (val d i)`.  `set` = `d[k] = c` (raw `dict.__setitem__`),
`pop` = `d.pop(k, _)`, `put` = store `c` if `c ≠ 0` else remove `k`. -/

theorem dict_sum_set [DecidableEq κ] [AddCommGroup N] (s : Finset κ) (f : κ → M) (k : κ)
    (c : M) (t : κ → M → N) :
    ∑ i ∈ insert k s, t i (Function.update f k c i)
      = ∑ i ∈ s, t i (f i) - (if k ∈ s then t k (f k) else 0) + t k c := by
  by_cases hk : k ∈ s
  · rw [Finset.insert_eq_of_mem hk, if_pos hk]
    exact finset_sum_update s f k c t hk
  · rw [Finset.sum_insert hk, if_neg hk, finset_sum_update_of_notMem s f k c t hk,
      Function.update_self]
    abel

theorem dict_sum_pop [DecidableEq κ] [AddCommGroup N] (s : Finset κ) (f : κ → M) (k : κ)
    (z : M) (t : κ → M → N) :
    ∑ i ∈ s.erase k, t i (Function.update f k z i)
      = ∑ i ∈ s, t i (f i) - (if k ∈ s then t k (f k) else 0) := by
  have h : ∑ i ∈ s.erase k, t i (Function.update f k z i) = ∑ i ∈ s.erase k, t i (f i) :=
    finset_sum_update_of_notMem (s.erase k) f k z t (Finset.notMem_erase k s)
  rw [h]
  by_cases hk : k ∈ s
  · rw [if_pos hk, ← Finset.add_sum_erase s (fun i => t i (f i)) hk]
    abel
  · rw [if_neg hk, Finset.erase_eq_of_notMem hk, sub_zero]

theorem dict_sum_put [DecidableEq κ] [Zero M] [DecidableEq M] [AddCommGroup N] (s : Finset κ)
    (f : κ → M) (k : κ) (c : M) (t : κ → M → N) :
    ∑ i ∈ (if c ≠ 0 then insert k s else s.erase k), t i (Function.update f k c i)
      = ∑ i ∈ s, t i (f i) - (if k ∈ s then t k (f k) else 0)
          + (if c ≠ 0 then t k c else 0) := by
  by_cases hc : c ≠ 0
  · rw [if_pos hc, if_pos hc]
    exact dict_sum_set s f k c t
  · rw [if_neg hc, if_neg hc, add_zero]
    exact dict_sum_pop s f k c t

/-- all-folds: splitting off one key -/
theorem dict_all_split [DecidableEq κ] (s : Finset κ) (f : κ → M) (k : κ)
    (P : κ → M → Prop) :
    (∀ i ∈ s, P i (f i)) ↔ (∀ i ∈ s.erase k, P i (f i)) ∧ (k ∈ s → P k (f k)) := by
  constructor
  · intro h
    exact ⟨fun i hi => h i (Finset.mem_of_mem_erase hi), fun hk => h k hk⟩
  · rintro ⟨h1, h2⟩ i hi
    by_cases hik : i = k
    · subst hik; exact h2 hi
    · exact h1 i (Finset.mem_erase.mpr ⟨hik, hi⟩)

theorem dict_all_set [DecidableEq κ] (s : Finset κ) (f : κ → M) (k : κ) (c : M)
    (P : κ → M → Prop) :
    (∀ i ∈ insert k s, P i (Function.update f k c i))
      ↔ (∀ i ∈ s.erase k, P i (f i)) ∧ P k c := by
  constructor
  · intro h
    refine ⟨fun i hi => ?_, ?_⟩
    · have := h i (Finset.mem_insert_of_mem (Finset.mem_of_mem_erase hi))
      rwa [Function.update_of_ne (Finset.ne_of_mem_erase hi)] at this
    · have := h k (Finset.mem_insert_self k s)
      rwa [Function.update_self] at this
  · rintro ⟨h1, h2⟩ i hi
    by_cases hik : i = k
    · subst hik; rw [Function.update_self]; exact h2
    · rw [Function.update_of_ne hik]
      exact h1 i (Finset.mem_erase.mpr ⟨hik, Finset.mem_of_mem_insert_of_ne hi hik⟩)

theorem dict_all_pop [DecidableEq κ] (s : Finset κ) (f : κ → M) (k : κ) (z : M)
    (P : κ → M → Prop) :
    (∀ i ∈ s.erase k, P i (Function.update f k z i)) ↔ (∀ i ∈ s.erase k, P i (f i)) := by
  constructor
  · intro h i hi
    have := h i hi
    rwa [Function.update_of_ne (Finset.ne_of_mem_erase hi)] at this
  · intro h i hi
    rw [Function.update_of_ne (Finset.ne_of_mem_erase hi)]
    exact h i hi

end L5

/-! ## Sanity instantiations at `α := ℕ`, `R := ℝ` / `ℚ` -/

section Inst

example (x : ℕ → ℝ) (hx : ∀ i, x i = 0 ∨ x i = 1) (k : List ℕ) :
    mono x (bsq k) = mono x k := mono_bsq hx k

example (x : ℕ → ℝ) (hx : ∀ i, x i = 1 ∨ x i = -1) (k : List ℕ) :
    mono x (ssq k) = mono x k := mono_ssq hx k

example (x : ℕ → ℝ) (k : List ℕ) : mono x k ≠ 0 ↔ ∀ i ∈ k, x i ≠ 0 := mono_ne_zero_iff x k

noncomputable example (x : ℕ → ℝ) (hx : ∀ i, x i = 1 ∨ x i = -1) (k : List ℕ) :
    mono x k = 1 ↔ Even (k.countP (fun i => decide (x i = -1))) :=
  mono_spin_eq_one_iff (by norm_num) hx k

example (x : ℕ → ℝ) (hx : ∀ i, x i = 0 ∨ x i = 1) (k : List ℕ) :
    mono (zval x) (ssq k) = mono (zval x) k := mono_ssq (zval_spin hx) k

example (d : List ℕ →₀ ℚ) (k : List ℕ) (c : ℚ) (t : List ℕ → ℚ → ℚ) (ht : ∀ i, t i 0 = 0) :
    (d.update k c).sum t = d.sum t - t k (d k) + t k c := finsupp_sum_update d k c t ht

example : bsq [3, 1, 3, 2, 1] = [1, 2, 3] :=
  (bsq_unique (l := [1, 2, 3]) (by simp) (by simp) (by intro i; simp; tauto)).symm
example : ssq [1, 1] = ([] : List ℕ) :=
  (ssq_unique (l := []) (by simp) (by simp) (by
    intro i; simp only [List.not_mem_nil, false_iff, Nat.not_odd_iff_even]
    by_cases h : i = 1 <;> simp [List.count_cons, h])).symm

end Inst

end Qvc

/-! ## Axiom audit -/

#print axioms Qvc.mono_nil
#print axioms Qvc.mono_singleton
#print axioms Qvc.mono_cons
#print axioms Qvc.mono_append
#print axioms Qvc.mono_perm
#print axioms Qvc.mono_bool_range
#print axioms Qvc.mono_spin_range
#print axioms Qvc.mono_ne_zero_iff
#print axioms Qvc.mono_eq_zero_iff
#print axioms Qvc.mono_bool_eq_one_iff
#print axioms Qvc.mono_spin_negcount
#print axioms Qvc.mono_spin_eq_one_iff
#print axioms Qvc.mono_eq_prod_count
#print axioms Qvc.bool_pow_pos
#print axioms Qvc.mono_bool_eq_prod_toFinset
#print axioms Qvc.mono_bool_same_members
#print axioms Qvc.spin_sq
#print axioms Qvc.spin_pow
#print axioms Qvc.mono_spin_eq_prod_odd
#print axioms Qvc.mono_spin_parity
#print axioms Qvc.leb_iff
#print axioms Qvc.leb_trans
#print axioms Qvc.leb_total
#print axioms Qvc.pairwise_sort
#print axioms Qvc.sort_eq_self
#print axioms Qvc.sorted_nodup_unique
#print axioms Qvc.bsq_perm
#print axioms Qvc.mem_bsq
#print axioms Qvc.bsq_subset
#print axioms Qvc.bsq_nodup
#print axioms Qvc.bsq_sorted
#print axioms Qvc.bsq_sorted_lt
#print axioms Qvc.bsq_length_le
#print axioms Qvc.bsq_of_sorted_nodup
#print axioms Qvc.bsq_idem
#print axioms Qvc.bsq_of_length_le_one
#print axioms Qvc.bsq_unique
#print axioms Qvc.bsq_eq_iff
#print axioms Qvc.ssq_perm
#print axioms Qvc.mem_ssq
#print axioms Qvc.ssq_subset
#print axioms Qvc.ssq_nodup
#print axioms Qvc.ssq_sorted
#print axioms Qvc.ssq_sorted_lt
#print axioms Qvc.ssq_length_le
#print axioms Qvc.ssq_of_sorted_nodup
#print axioms Qvc.ssq_idem
#print axioms Qvc.ssq_of_length_le_one
#print axioms Qvc.ssq_unique
#print axioms Qvc.ssq_eq_iff
#print axioms Qvc.mono_bsq
#print axioms Qvc.mono_ssq
#print axioms Qvc.forall_mem_bsq
#print axioms Qvc.forall_mem_ssq
#print axioms Qvc.forall_mem_append_iff
#print axioms Qvc.bsq_def
#print axioms Qvc.ssq_def
#print axioms Qvc.mono_bool_dup
#print axioms Qvc.mono_spin_dup
#print axioms Qvc.mono_pair
#print axioms Qvc.zval_spin
#print axioms Qvc.negcount_eq_countP
#print axioms Qvc.mono_spin_negcount_ite
#print axioms Qvc.finset_sum_update
#print axioms Qvc.finset_sum_update_of_notMem
#print axioms Qvc.finsupp_sum_update
#print axioms Qvc.finsupp_sum_erase
#print axioms Qvc.finsupp_sum_insert_fresh
#print axioms Qvc.dict_sum_set
#print axioms Qvc.dict_sum_pop
#print axioms Qvc.dict_sum_put
#print axioms Qvc.dict_all_split
#print axioms Qvc.dict_all_set
#print axioms Qvc.dict_all_pop
