/-
  QvcLemmas.lean — mathematical lemmas assumed by the qvc SMT-based verifier,
  proved in Lean 4 + Mathlib.  No `sorry`, no custom axioms (see the
  `#print axioms` block at the end; `check.sh` enforces this).

  Setting.  Labels are elements of a type `α`; an assignment is `x : α → R`
  for a commutative ring `R` (instantiate `R := ℝ` or `ℚ`).  A key is a
  `List α` (labels with repetitions) and

      mono x k := (k.map x).prod

  is the value of the monomial named by `k` under `x`.
-/
import Mathlib.Algebra.BigOperators.Group.Finset.Basic
import Mathlib.Algebra.BigOperators.Finsupp.Basic
import Mathlib.Algebra.Ring.Parity
import Mathlib.Data.Finsupp.Basic
import Mathlib.Data.List.Sort
import Mathlib.Data.List.Dedup
import Mathlib.Data.Real.Basic
import Mathlib.Algebra.Order.Archimedean.Real.Basic
import Mathlib.Algebra.BigOperators.Fin
import Mathlib.Data.Nat.Size
import Mathlib.Algebra.Order.Floor.Semiring
import Mathlib.Algebra.Order.BigOperators.Group.Finset
import Mathlib.Data.Fintype.Lattice
import Mathlib.Data.Set.Finite.Lemmas
import Mathlib.Order.Bounds.Basic
import Mathlib.Tactic.Ring
import Mathlib.Tactic.Abel
import Mathlib.Tactic.Tauto
import Mathlib.Tactic.NormNum
import Mathlib.Tactic.Linarith

namespace Qvc

open List

variable {α : Type*} {R : Type*}

/-- Value of the monomial `k` (list of labels, with repetition) under `x`. -/
def mono [CommRing R] (x : α → R) (k : List α) : R := (k.map x).prod

/-! ## L1 : definition of `mono` -/

section L1
variable [CommRing R] (x : α → R)

theorem mono_nil : mono x [] = 1 := by simp [mono]

theorem mono_singleton (i : α) : mono x [i] = x i := by simp [mono]

theorem mono_cons (i : α) (k : List α) : mono x (i :: k) = x i * mono x k := by
  simp [mono]

theorem mono_append (a b : List α) : mono x (a ++ b) = mono x a * mono x b := by
  simp [mono]

/-- `mono` only depends on the multiset of labels. -/
theorem mono_perm {a b : List α} (h : a.Perm b) : mono x a = mono x b :=
  (h.map x).prod_eq

end L1

/-! ## L2 : range of `mono` -/

section L2
variable [CommRing R] {x : α → R}

theorem mono_bool_range (hx : ∀ i, x i = 0 ∨ x i = 1) (k : List α) :
    mono x k = 0 ∨ mono x k = 1 := by
  induction k with
  | nil => right; exact mono_nil x
  | cons a l ih =>
    rw [mono_cons]
    rcases hx a with ha | ha
    · left; rw [ha, zero_mul]
    · rw [ha, one_mul]; exact ih

theorem mono_spin_range (hx : ∀ i, x i = 1 ∨ x i = -1) (k : List α) :
    mono x k = 1 ∨ mono x k = -1 := by
  induction k with
  | nil => left; exact mono_nil x
  | cons a l ih =>
    rw [mono_cons]
    rcases hx a with ha | ha <;> rcases ih with hl | hl <;> rw [ha, hl] <;> simp

theorem mono_ne_zero_iff [NoZeroDivisors R] [Nontrivial R] (x : α → R) (k : List α) :
    mono x k ≠ 0 ↔ ∀ i ∈ k, x i ≠ 0 := by
  induction k with
  | nil => simp [mono]
  | cons a l ih => rw [mono_cons, mul_ne_zero_iff, ih]; simp

theorem mono_eq_zero_iff [NoZeroDivisors R] [Nontrivial R] (x : α → R) (k : List α) :
    mono x k = 0 ↔ ∃ i ∈ k, x i = 0 := by
  rw [← not_iff_not, ← ne_eq, mono_ne_zero_iff]
  simp

/-- Boolean case without any hypothesis on zero divisors:
the monomial is `1` iff every member is `1` (for `0 ≠ 1`). -/
theorem mono_bool_eq_one_iff [Nontrivial R] (hx : ∀ i, x i = 0 ∨ x i = 1) (k : List α) :
    mono x k = 1 ↔ ∀ i ∈ k, x i = 1 := by
  induction k with
  | nil => simp [mono]
  | cons a l ih =>
    rw [mono_cons]
    rcases hx a with ha | ha
    · simp [ha]
    · simp [ha, ih]

end L2

/-! ## L2' : spin monomial = (-1)^(number of -1 members) -/

section L2'
variable [CommRing R] [DecidableEq R] {x : α → R}

theorem mono_spin_negcount (hx : ∀ i, x i = 1 ∨ x i = -1) (k : List α) :
    mono x k = (-1) ^ (k.countP (fun i => decide (x i = -1))) := by
  induction k with
  | nil => simp [mono]
  | cons a l ih =>
    rw [mono_cons, ih]
    by_cases h : x a = -1
    · rw [List.countP_cons_of_pos (by simpa using h), pow_succ, h]; ring
    · rw [List.countP_cons_of_neg (by simpa using h)]
      rcases hx a with ha | ha
      · rw [ha, one_mul]
      · exact absurd ha h

/-- In a ring where `1 ≠ -1` (e.g. `ℝ`, `ℚ`, `ℤ`): the spin monomial is `1` iff the
number of `-1` members (with repetition) is even. -/
theorem mono_spin_eq_one_iff (h2 : (1 : R) ≠ -1) (hx : ∀ i, x i = 1 ∨ x i = -1)
    (k : List α) :
    mono x k = 1 ↔ Even (k.countP (fun i => decide (x i = -1))) := by
  rw [mono_spin_negcount hx]
  constructor
  · intro h
    by_contra hne
    rw [Nat.not_even_iff_odd] at hne
    rw [hne.neg_one_pow] at h
    exact h2 h.symm
  · intro h; exact h.neg_one_pow

end L2'

/-! ## Count form of `mono` (the bridge used by L3 and L4) -/

section Count
variable [CommRing R] [DecidableEq α]

theorem mono_eq_prod_count (x : α → R) (k : List α) :
    mono x k = ∏ i ∈ k.toFinset, x i ^ k.count i :=
  Finset.prod_list_map_count k x

end Count

/-! ## L3 : boolean idempotence -/

section L3
variable [CommRing R] [DecidableEq α] {x : α → R}

theorem bool_pow_pos {r : R} (hr : r = 0 ∨ r = 1) {n : ℕ} (hn : 0 < n) : r ^ n = r := by
  rcases hr with h | h
  · rw [h, zero_pow (Nat.pos_iff_ne_zero.mp hn)]
  · rw [h, one_pow]

/-- For boolean `x`, `mono x k` is the product of `x` over the *set* of members. -/
theorem mono_bool_eq_prod_toFinset (hx : ∀ i, x i = 0 ∨ x i = 1) (k : List α) :
    mono x k = ∏ i ∈ k.toFinset, x i := by
  rw [mono_eq_prod_count]
  refine Finset.prod_congr rfl (fun i hi => ?_)
  exact bool_pow_pos (hx i) (List.count_pos_iff.mpr (List.mem_toFinset.mp hi))

theorem mono_bool_same_members (hx : ∀ i, x i = 0 ∨ x i = 1) {k k' : List α}
    (h : ∀ i, i ∈ k ↔ i ∈ k') : mono x k = mono x k' := by
  rw [mono_bool_eq_prod_toFinset hx, mono_bool_eq_prod_toFinset hx]
  have : k.toFinset = k'.toFinset := by
    ext i; simp [h i]
  rw [this]

end L3

/-! ## L4 : spin parity -/

section L4
variable [CommRing R] [DecidableEq α] {x : α → R}

theorem spin_sq {r : R} (hr : r = 1 ∨ r = -1) : r * r = 1 := by
  rcases hr with h | h <;> rw [h] <;> ring

theorem spin_pow {r : R} (hr : r = 1 ∨ r = -1) (n : ℕ) :
    r ^ n = if Odd n then r else 1 := by
  have h2 : r ^ 2 = 1 := by rw [pow_two]; exact spin_sq hr
  split_ifs with h
  · obtain ⟨m, rfl⟩ := h
    rw [pow_succ, pow_mul, h2, one_pow, one_mul]
  · rw [Nat.not_odd_iff_even] at h
    obtain ⟨m, rfl⟩ := h
    rw [← two_mul, pow_mul, h2, one_pow]

/-- For spin `x`, `mono x k` is the product of `x` over the members of odd multiplicity. -/
theorem mono_spin_eq_prod_odd (hx : ∀ i, x i = 1 ∨ x i = -1) (k : List α) :
    mono x k = ∏ i ∈ k.toFinset.filter (fun i => Odd (k.count i)), x i := by
  rw [mono_eq_prod_count, Finset.prod_filter]
  exact Finset.prod_congr rfl (fun i _ => spin_pow (hx i) _)

theorem mono_spin_parity (hx : ∀ i, x i = 1 ∨ x i = -1) {k k' : List α}
    (hnd : k'.Nodup) (h : ∀ i, i ∈ k' ↔ Odd (k.count i)) : mono x k' = mono x k := by
  rw [mono_spin_eq_prod_odd hx k]
  have hset : k.toFinset.filter (fun i => Odd (k.count i)) = k'.toFinset := by
    ext i
    simp only [Finset.mem_filter, List.mem_toFinset, h i]
    constructor
    · exact fun hh => hh.2
    · intro hodd
      refine ⟨?_, hodd⟩
      apply List.count_pos_iff.mp
      obtain ⟨m, hm⟩ := hodd
      omega
  rw [hset, List.prod_toFinset x hnd, mono]

end L4

/-! ## Canonical keys `bsq` (boolean squash) and `ssq` (spin squash) -/

section Sq
variable [LinearOrder α]

/-- the comparison used for sorting keys -/
def leb (a b : α) : Bool := decide (a ≤ b)

theorem leb_iff {a b : α} : leb a b = true ↔ a ≤ b := by simp [leb]

theorem leb_trans (a b c : α) : leb a b = true → leb b c = true → leb a c = true := by
  simp only [leb_iff]; exact le_trans

theorem leb_total (a b : α) : (leb a b || leb b a) = true := by
  simp only [Bool.or_eq_true, leb_iff]; exact le_total a b

/-- `l.mergeSort leb` is sorted w.r.t. `≤`. -/
theorem pairwise_sort (l : List α) : (l.mergeSort leb).Pairwise (· ≤ ·) := by
  have := List.pairwise_mergeSort (le := leb) leb_trans leb_total l
  simpa only [leb_iff] using this

theorem sort_eq_self {l : List α} (h : l.Pairwise (· ≤ ·)) : l.mergeSort leb = l := by
  apply List.mergeSort_of_pairwise
  simpa only [leb_iff] using h

/-- A sorted (`≤`) duplicate-free list is determined by its set of members. -/
theorem sorted_nodup_unique {l₁ l₂ : List α} (s₁ : l₁.Pairwise (· ≤ ·)) (n₁ : l₁.Nodup)
    (s₂ : l₂.Pairwise (· ≤ ·)) (n₂ : l₂.Nodup) (h : ∀ i, i ∈ l₁ ↔ i ∈ l₂) : l₁ = l₂ := by
  have hp : l₁.Perm l₂ := (List.perm_ext_iff_of_nodup n₁ n₂).mpr h
  exact List.Perm.eq_of_pairwise (fun a b _ _ hab hba => le_antisymm hab hba) s₁ s₂ hp

/-- boolean canonical key: sorted duplicate-free list of the members of `k` -/
def bsq (k : List α) : List α := (k.dedup).mergeSort leb

/-- spin canonical key: sorted duplicate-free list of the members of `k` that occur
an odd number of times -/
def ssq (k : List α) : List α :=
  ((k.dedup).filter (fun i => k.count i % 2 = 1)).mergeSort leb

/-! ### bsq -/

theorem bsq_perm (k : List α) : (bsq k).Perm k.dedup := List.mergeSort_perm _ _

theorem mem_bsq {k : List α} {i : α} : i ∈ bsq k ↔ i ∈ k := by
  rw [(bsq_perm k).mem_iff, List.mem_dedup]

theorem bsq_subset (k : List α) : ∀ i ∈ bsq k, i ∈ k := fun _ h => mem_bsq.mp h

theorem bsq_nodup (k : List α) : (bsq k).Nodup :=
  (bsq_perm k).nodup_iff.mpr (List.nodup_dedup k)

theorem bsq_sorted (k : List α) : (bsq k).Pairwise (· ≤ ·) := pairwise_sort _

theorem bsq_sorted_lt (k : List α) : (bsq k).Pairwise (· < ·) := by
  have h1 := bsq_sorted k
  have h2 : (bsq k).Pairwise (· ≠ ·) := bsq_nodup k
  exact (h1.and h2).imp (fun h => lt_of_le_of_ne h.1 h.2)

theorem bsq_length_le (k : List α) : (bsq k).length ≤ k.length := by
  rw [(bsq_perm k).length_eq]
  exact (List.dedup_sublist k).length_le

theorem bsq_of_sorted_nodup {k : List α} (hs : k.Pairwise (· ≤ ·)) (hn : k.Nodup) :
    bsq k = k := by
  rw [bsq, hn.dedup, sort_eq_self hs]

theorem bsq_idem (k : List α) : bsq (bsq k) = bsq k :=
  bsq_of_sorted_nodup (bsq_sorted k) (bsq_nodup k)

theorem bsq_of_length_le_one {k : List α} (h : k.length ≤ 1) : bsq k = k := by
  apply bsq_of_sorted_nodup
  · match k, h with
    | [], _ => exact List.Pairwise.nil
    | [a], _ => exact List.pairwise_singleton _ a
  · match k, h with
    | [], _ => exact List.nodup_nil
    | [a], _ => exact List.nodup_singleton a

/-- `bsq k` is *the* sorted duplicate-free list with the same members as `k`. -/
theorem bsq_unique {k l : List α} (hs : l.Pairwise (· ≤ ·)) (hn : l.Nodup)
    (h : ∀ i, i ∈ l ↔ i ∈ k) : l = bsq k :=
  sorted_nodup_unique hs hn (bsq_sorted k) (bsq_nodup k) (fun i => by rw [h i, mem_bsq])

/-- Two keys have the same canonical boolean key iff they have the same members. -/
theorem bsq_eq_iff {k k' : List α} : bsq k = bsq k' ↔ ∀ i, i ∈ k ↔ i ∈ k' := by
  constructor
  · intro h i; rw [← mem_bsq (k := k), h, mem_bsq]
  · intro h
    exact sorted_nodup_unique (bsq_sorted k) (bsq_nodup k) (bsq_sorted k') (bsq_nodup k')
      (fun i => by rw [mem_bsq, mem_bsq, h i])

/-! ### ssq -/

theorem ssq_perm (k : List α) :
    (ssq k).Perm ((k.dedup).filter (fun i => k.count i % 2 = 1)) := List.mergeSort_perm _ _

theorem mem_ssq {k : List α} {i : α} : i ∈ ssq k ↔ Odd (k.count i) := by
  rw [(ssq_perm k).mem_iff, List.mem_filter, List.mem_dedup, Nat.odd_iff]
  simp only [decide_eq_true_eq, and_iff_right_iff_imp]
  intro h
  apply List.count_pos_iff.mp
  omega

theorem ssq_subset (k : List α) : ∀ i ∈ ssq k, i ∈ k := by
  intro i hi
  apply List.count_pos_iff.mp
  obtain ⟨m, hm⟩ := mem_ssq.mp hi
  omega

theorem ssq_nodup (k : List α) : (ssq k).Nodup :=
  (ssq_perm k).nodup_iff.mpr ((List.nodup_dedup k).filter _)

theorem ssq_sorted (k : List α) : (ssq k).Pairwise (· ≤ ·) := pairwise_sort _

theorem ssq_sorted_lt (k : List α) : (ssq k).Pairwise (· < ·) := by
  have h1 := ssq_sorted k
  have h2 : (ssq k).Pairwise (· ≠ ·) := ssq_nodup k
  exact (h1.and h2).imp (fun h => lt_of_le_of_ne h.1 h.2)

theorem ssq_length_le (k : List α) : (ssq k).length ≤ k.length := by
  rw [(ssq_perm k).length_eq]
  exact ((List.filter_sublist).trans (List.dedup_sublist k)).length_le

theorem ssq_of_sorted_nodup {k : List α} (hs : k.Pairwise (· ≤ ·)) (hn : k.Nodup) :
    ssq k = k := by
  have hf : (k.dedup).filter (fun i => k.count i % 2 = 1) = k := by
    rw [hn.dedup, List.filter_eq_self]
    intro a ha
    rw [List.count_eq_one_of_mem hn ha]
    rfl
  rw [ssq, hf, sort_eq_self hs]

theorem ssq_idem (k : List α) : ssq (ssq k) = ssq k :=
  ssq_of_sorted_nodup (ssq_sorted k) (ssq_nodup k)

theorem ssq_of_length_le_one {k : List α} (h : k.length ≤ 1) : ssq k = k := by
  apply ssq_of_sorted_nodup
  · match k, h with
    | [], _ => exact List.Pairwise.nil
    | [a], _ => exact List.pairwise_singleton _ a
  · match k, h with
    | [], _ => exact List.nodup_nil
    | [a], _ => exact List.nodup_singleton a

/-- `ssq k` is *the* sorted duplicate-free list of the odd-multiplicity members of `k`. -/
theorem ssq_unique {k l : List α} (hs : l.Pairwise (· ≤ ·)) (hn : l.Nodup)
    (h : ∀ i, i ∈ l ↔ Odd (k.count i)) : l = ssq k :=
  sorted_nodup_unique hs hn (ssq_sorted k) (ssq_nodup k) (fun i => by rw [h i, mem_ssq])

/-- Two keys have the same canonical spin key iff all multiplicities agree mod 2. -/
theorem ssq_eq_iff {k k' : List α} :
    ssq k = ssq k' ↔ ∀ i, (Odd (k.count i) ↔ Odd (k'.count i)) := by
  constructor
  · intro h i; rw [← mem_ssq (k := k), h, mem_ssq]
  · intro h
    exact sorted_nodup_unique (ssq_sorted k) (ssq_nodup k) (ssq_sorted k') (ssq_nodup k')
      (fun i => by rw [mem_ssq, mem_ssq, h i])

/-! ### value preservation (corollaries of L3 / L4) -/

theorem mono_bsq [CommRing R] {x : α → R} (hx : ∀ i, x i = 0 ∨ x i = 1) (k : List α) :
    mono x (bsq k) = mono x k :=
  mono_bool_same_members hx (fun _ => mem_bsq)

theorem mono_ssq [CommRing R] {x : α → R} (hx : ∀ i, x i = 1 ∨ x i = -1) (k : List α) :
    mono x (ssq k) = mono x k :=
  mono_spin_parity hx (ssq_nodup k) (fun _ => mem_ssq)

/-- any property of all members of `k` is inherited by the canonical keys
(used for `matvalid`). -/
theorem forall_mem_bsq {P : α → Prop} {k : List α} (h : ∀ i ∈ k, P i) : ∀ i ∈ bsq k, P i :=
  fun i hi => h i (bsq_subset k i hi)

theorem forall_mem_ssq {P : α → Prop} {k : List α} (h : ∀ i ∈ k, P i) : ∀ i ∈ ssq k, P i :=
  fun i hi => h i (ssq_subset k i hi)

omit [LinearOrder α] in
theorem forall_mem_append_iff {P : α → Prop} (a b : List α) :
    (∀ i ∈ a ++ b, P i) ↔ (∀ i ∈ a, P i) ∧ (∀ i ∈ b, P i) := by
  simp only [List.mem_append]
  constructor
  · exact fun h => ⟨fun i hi => h i (Or.inl hi), fun i hi => h i (Or.inr hi)⟩
  · rintro ⟨h1, h2⟩ i (hi | hi)
    · exact h1 i hi
    · exact h2 i hi

/-- the definitions agree with `mergeSort` on the default comparison `fun a b => a ≤ b` -/
theorem bsq_def (k : List α) : bsq k = (k.dedup).mergeSort (fun a b => decide (a ≤ b)) := rfl

theorem ssq_def (k : List α) :
    ssq k = ((k.dedup).filter (fun i => k.count i % 2 = 1)).mergeSort
      (fun a b => decide (a ≤ b)) := rfl

end Sq

/-! ## Small rewriting corollaries used as quantifier-free instances -/

section Dup
variable [CommRing R] {x : α → R}

theorem mono_bool_dup (hx : ∀ i, x i = 0 ∨ x i = 1) (i : α) (k : List α) :
    mono x (i :: i :: k) = mono x (i :: k) := by
  rw [mono_cons, mono_cons, ← mul_assoc]
  rcases hx i with h | h <;> rw [h] <;> simp

theorem mono_spin_dup (hx : ∀ i, x i = 1 ∨ x i = -1) (i : α) (k : List α) :
    mono x (i :: i :: k) = mono x k := by
  rw [mono_cons, mono_cons, ← mul_assoc]
  rcases hx i with h | h <;> rw [h] <;> simp

end Dup

theorem mono_pair [CommRing R] (x : α → R) (i j : α) : mono x [i, j] = x i * x j := by
  simp [mono]

/-! ## Bridge to the verifier's encoding: `zval i = 1 - 2 * xval i`, `negcount` -/

section Bridge
variable [CommRing R] {x : α → R}

/-- the spin assignment attached to a boolean assignment -/
def zval (x : α → R) (i : α) : R := 1 - 2 * x i

theorem zval_spin (hx : ∀ i, x i = 0 ∨ x i = 1) : ∀ i, zval x i = 1 ∨ zval x i = -1 := by
  intro i
  unfold zval
  rcases hx i with h | h
  · left; rw [h]; ring
  · right; rw [h]; ring

/-- `negcount`, in the form the verifier reads it off the source:
`[z[i] for i in k].count(-1)`. -/
theorem negcount_eq_countP [DecidableEq R] (z : α → R) (k : List α) :
    (k.map z).count (-1) = k.countP (fun i => decide (z i = -1)) := by
  rw [List.count_eq_countP, List.countP_map]
  rfl

/-- L2' exactly as instantiated by the verifier:
`smono k = if negcount k % 2 = 0 then 1 else -1`. -/
theorem mono_spin_negcount_ite [DecidableEq R] {z : α → R} (hz : ∀ i, z i = 1 ∨ z i = -1)
    (k : List α) :
    mono z k = if (k.map z).count (-1) % 2 = 0 then 1 else -1 := by
  rw [negcount_eq_countP, mono_spin_negcount hz]
  split_ifs with h
  · exact (Nat.even_iff.mpr h).neg_one_pow
  · exact (Nat.odd_iff.mpr (by omega)).neg_one_pow

end Bridge


/-! ## L5 : finite-sum update law -/

section L5
variable {κ : Type*} {M : Type*} {N : Type*}

/-- Finset-indexed form: changing the value at one index `k ∈ s` changes the sum by
`- t k (old) + t k (new)`.  No hypothesis on `t`. -/
theorem finset_sum_update [DecidableEq κ] [AddCommGroup N] (s : Finset κ) (f : κ → M)
    (k : κ) (c : M) (t : κ → M → N) (hk : k ∈ s) :
    ∑ i ∈ s, t i (Function.update f k c i) = ∑ i ∈ s, t i (f i) - t k (f k) + t k c := by
  rw [← Finset.add_sum_erase s _ hk, ← Finset.add_sum_erase s (fun i => t i (f i)) hk]
  have : ∀ i ∈ s.erase k, t i (Function.update f k c i) = t i (f i) := by
    intro i hi
    rw [Function.update_of_ne (Finset.ne_of_mem_erase hi)]
  rw [Finset.sum_congr rfl this, Function.update_self]
  abel

/-- Finset-indexed form when `k ∉ s`: the sum is unchanged. -/
theorem finset_sum_update_of_notMem [DecidableEq κ] [AddCommMonoid N] (s : Finset κ)
    (f : κ → M) (k : κ) (c : M) (t : κ → M → N) (hk : k ∉ s) :
    ∑ i ∈ s, t i (Function.update f k c i) = ∑ i ∈ s, t i (f i) := by
  refine Finset.sum_congr rfl (fun i hi => ?_)
  have hik : i ≠ k := fun h => hk (by rw [← h]; exact hi)
  rw [Function.update_of_ne hik]

/-- Finitely-supported form (`d : κ →₀ M`, absent keys read as `0`): for an arbitrary
term function with `t i 0 = 0`,
`(d.update k c).sum t = d.sum t - t k (d k) + t k c`. -/
theorem finsupp_sum_update [Zero M] [AddCommGroup N] (d : κ →₀ M) (k : κ) (c : M)
    (t : κ → M → N) (ht : ∀ i, t i 0 = 0) :
    (d.update k c).sum t = d.sum t - t k (d k) + t k c := by
  classical
  have hs1 : (d.update k c).support ⊆ insert k d.support := by
    intro i hi
    by_cases hik : i = k
    · rw [hik]; exact Finset.mem_insert_self _ _
    · apply Finset.mem_insert_of_mem
      rw [Finsupp.mem_support_iff] at hi ⊢
      rwa [Finsupp.update_apply, if_neg hik] at hi
  have hs2 : d.support ⊆ insert k d.support := Finset.subset_insert _ _
  rw [Finsupp.sum_of_support_subset _ hs1 _ (fun i _ => ht i),
    Finsupp.sum_of_support_subset _ hs2 _ (fun i _ => ht i)]
  have := finset_sum_update (insert k d.support) (⇑d) k c t (Finset.mem_insert_self _ _)
  rw [← this]
  refine Finset.sum_congr rfl (fun i _ => ?_)
  rw [Finsupp.coe_update]

/-- Special cases: deleting a key (`c = 0`) and inserting a fresh key (`d k = 0`). -/
theorem finsupp_sum_erase [Zero M] [AddCommGroup N] (d : κ →₀ M) (k : κ)
    (t : κ → M → N) (ht : ∀ i, t i 0 = 0) :
    (d.update k 0).sum t = d.sum t - t k (d k) := by
  rw [finsupp_sum_update d k 0 t ht, ht, add_zero]

theorem finsupp_sum_insert_fresh [Zero M] [AddCommGroup N] (d : κ →₀ M) (k : κ) (c : M)
    (t : κ → M → N) (ht : ∀ i, t i 0 = 0) (hk : d k = 0) :
    (d.update k c).sum t = d.sum t + t k c := by
  rw [finsupp_sum_update d k c t ht, hk, ht, sub_zero]


/-! ### The verifier's dict model: explicit finite domain `s` + total value map `f`

`F(d) = ∑ i ∈ dom d, t i (val d i)`.  `set` = `d[k] = c` (raw `dict.__setitem__`),
`pop` = `d.pop(k, _)`, `put` = store `c` if `c ≠ 0` else remove `k`. -/

theorem dict_sum_set [DecidableEq κ] [AddCommGroup N] (s : Finset κ) (f : κ → M) (k : κ)
    (c : M) (t : κ → M → N) :
    ∑ i ∈ insert k s, t i (Function.update f k c i)
      = ∑ i ∈ s, t i (f i) - (if k ∈ s then t k (f k) else 0) + t k c := by
  by_cases hk : k ∈ s
  · rw [Finset.insert_eq_of_mem hk, if_pos hk]
    exact finset_sum_update s f k c t hk
  · rw [Finset.sum_insert hk, if_neg hk, finset_sum_update_of_notMem s f k c t hk,
      Function.update_self]
    abel

theorem dict_sum_pop [DecidableEq κ] [AddCommGroup N] (s : Finset κ) (f : κ → M) (k : κ)
    (z : M) (t : κ → M → N) :
    ∑ i ∈ s.erase k, t i (Function.update f k z i)
      = ∑ i ∈ s, t i (f i) - (if k ∈ s then t k (f k) else 0) := by
  have h : ∑ i ∈ s.erase k, t i (Function.update f k z i) = ∑ i ∈ s.erase k, t i (f i) :=
    finset_sum_update_of_notMem (s.erase k) f k z t (Finset.notMem_erase k s)
  rw [h]
  by_cases hk : k ∈ s
  · rw [if_pos hk, ← Finset.add_sum_erase s (fun i => t i (f i)) hk]
    abel
  · rw [if_neg hk, Finset.erase_eq_of_notMem hk, sub_zero]

theorem dict_sum_put [DecidableEq κ] [Zero M] [DecidableEq M] [AddCommGroup N] (s : Finset κ)
    (f : κ → M) (k : κ) (c : M) (t : κ → M → N) :
    ∑ i ∈ (if c ≠ 0 then insert k s else s.erase k), t i (Function.update f k c i)
      = ∑ i ∈ s, t i (f i) - (if k ∈ s then t k (f k) else 0)
          + (if c ≠ 0 then t k c else 0) := by
  by_cases hc : c ≠ 0
  · rw [if_pos hc, if_pos hc]
    exact dict_sum_set s f k c t
  · rw [if_neg hc, if_neg hc, add_zero]
    exact dict_sum_pop s f k c t

/-- all-folds: splitting off one key -/
theorem dict_all_split [DecidableEq κ] (s : Finset κ) (f : κ → M) (k : κ)
    (P : κ → M → Prop) :
    (∀ i ∈ s, P i (f i)) ↔ (∀ i ∈ s.erase k, P i (f i)) ∧ (k ∈ s → P k (f k)) := by
  constructor
  · intro h
    exact ⟨fun i hi => h i (Finset.mem_of_mem_erase hi), fun hk => h k hk⟩
  · rintro ⟨h1, h2⟩ i hi
    by_cases hik : i = k
    · subst hik; exact h2 hi
    · exact h1 i (Finset.mem_erase.mpr ⟨hik, hi⟩)

theorem dict_all_set [DecidableEq κ] (s : Finset κ) (f : κ → M) (k : κ) (c : M)
    (P : κ → M → Prop) :
    (∀ i ∈ insert k s, P i (Function.update f k c i))
      ↔ (∀ i ∈ s.erase k, P i (f i)) ∧ P k c := by
  constructor
  · intro h
    refine ⟨fun i hi => ?_, ?_⟩
    · have := h i (Finset.mem_insert_of_mem (Finset.mem_of_mem_erase hi))
      rwa [Function.update_of_ne (Finset.ne_of_mem_erase hi)] at this
    · have := h k (Finset.mem_insert_self k s)
      rwa [Function.update_self] at this
  · rintro ⟨h1, h2⟩ i hi
    by_cases hik : i = k
    · subst hik; rw [Function.update_self]; exact h2
    · rw [Function.update_of_ne hik]
      exact h1 i (Finset.mem_erase.mpr ⟨hik, Finset.mem_of_mem_insert_of_ne hi hik⟩)

theorem dict_all_pop [DecidableEq κ] (s : Finset κ) (f : κ → M) (k : κ) (z : M)
    (P : κ → M → Prop) :
    (∀ i ∈ s.erase k, P i (Function.update f k z i)) ↔ (∀ i ∈ s.erase k, P i (f i)) := by
  constructor
  · intro h i hi
    have := h i hi
    rwa [Function.update_of_ne (Finset.ne_of_mem_erase hi)] at this
  · intro h i hi
    rw [Function.update_of_ne (Finset.ne_of_mem_erase hi)]
    exact h i hi

end L5

/-! ## L9 : relabelling a key through a mapping, and plain sorting (`srt`) -/

section L9
variable {β : Type*} [CommRing R]

/-- `mono` only looks at the values of the assignment on the members of the key. -/
theorem mono_congr {x y : α → R} {k : List α} (h : ∀ i ∈ k, x i = y i) :
    mono x k = mono y k := by
  unfold mono
  rw [List.map_congr_left h]

/-- `relab(k, m) = tuple(m[i] for i in k)` is `k.map m`. -/
theorem mono_map (m : α → β) (a : β → R) (k : List α) :
    mono a (k.map m) = mono (a ∘ m) k := by
  unfold mono
  rw [List.map_map]

/-- L9 in the conditional form used by the verifier (`linked`: `x = a ∘ m` on the labels of `k`). -/
theorem mono_relabel (m : α → β) (a : β → R) (x : α → R) (k : List α)
    (h : ∀ i ∈ k, x i = a (m i)) : mono a (k.map m) = mono x k := by
  rw [mono_map]
  exact (mono_congr (fun i hi => h i hi)).symm

/-- the spin form: `asmono (relab k m) = smono k`. -/
theorem mono_relabel_zval (m : α → β) (a : β → R) (x : α → R) (k : List α)
    (h : ∀ i ∈ k, x i = a (m i)) : mono (zval a) (k.map m) = mono (zval x) k :=
  mono_relabel m (zval a) (zval x) k (fun i hi => by unfold zval; rw [h i hi])

theorem relabel_length (m : α → β) (k : List α) : (k.map m).length = k.length :=
  List.length_map m

theorem relabel_getElem (m : α → β) (k : List α) (i : ℕ) (h : i < k.length) :
    (k.map m)[i]'(by rw [List.length_map]; exact h) = m k[i] :=
  List.getElem_map m

theorem relabel_getElem? (m : α → β) (k : List α) (i : ℕ) :
    (k.map m)[i]? = (k[i]?).map m :=
  List.getElem?_map

theorem mem_relabel (m : α → β) (k : List α) (j : β) : j ∈ k.map m ↔ ∃ i ∈ k, m i = j :=
  List.mem_map

/-- `matvalid (relab k m)` from a property of the images of the members. -/
theorem forall_mem_relabel {P : β → Prop} (m : α → β) {k : List α} (h : ∀ i ∈ k, P (m i)) :
    ∀ j ∈ k.map m, P j := by
  intro j hj
  obtain ⟨i, hi, rfl⟩ := List.mem_map.mp hj
  exact h i hi

end L9

section Srt
variable [LinearOrder α]

/-- `tuple(sorted(k))` -/
def srt (l : List α) : List α := l.mergeSort leb

theorem srt_def (l : List α) : srt l = l.mergeSort (fun a b => decide (a ≤ b)) := rfl

theorem srt_perm (l : List α) : (srt l).Perm l := List.mergeSort_perm _ _

theorem mono_srt [CommRing R] (x : α → R) (l : List α) : mono x (srt l) = mono x l :=
  mono_perm x (srt_perm l)

theorem srt_length (l : List α) : (srt l).length = l.length := (srt_perm l).length_eq

theorem mem_srt {l : List α} {i : α} : i ∈ srt l ↔ i ∈ l := (srt_perm l).mem_iff

theorem srt_count [DecidableEq α] (l : List α) (i : α) : (srt l).count i = l.count i :=
  (srt_perm l).count_eq i

theorem srt_sorted (l : List α) : (srt l).Pairwise (· ≤ ·) := pairwise_sort l

theorem srt_of_sorted {l : List α} (h : l.Pairwise (· ≤ ·)) : srt l = l := sort_eq_self h

theorem srt_idem (l : List α) : srt (srt l) = srt l := srt_of_sorted (srt_sorted l)

theorem srt_of_length_le_one {l : List α} (h : l.length ≤ 1) : srt l = l := by
  apply srt_of_sorted
  match l, h with
  | [], _ => exact List.Pairwise.nil
  | [a], _ => exact List.pairwise_singleton _ a

theorem forall_mem_srt_iff {P : α → Prop} (l : List α) :
    (∀ i ∈ srt l, P i) ↔ (∀ i ∈ l, P i) := by
  constructor
  · exact fun h i hi => h i (mem_srt.mpr hi)
  · exact fun h i hi => h i (mem_srt.mp hi)

/-- `srt l` is the unique sorted permutation of `l`. -/
theorem srt_unique {l l' : List α} (hs : l'.Pairwise (· ≤ ·)) (hp : l'.Perm l) : l' = srt l :=
  List.Perm.eq_of_pairwise (fun _ _ _ _ hab hba => le_antisymm hab hba) hs (srt_sorted l)
    (hp.trans (srt_perm l).symm)

/-- the canonical keys are `srt` of a duplicate-free list -/
theorem bsq_eq_srt_dedup (k : List α) : bsq k = srt k.dedup := rfl

end Srt

/-! ## L10 : splitting a key by a predicate (membership in a set) -/

section L10
variable [CommRing R]

theorem mono_filter_mul (x : α → R) (p : α → Bool) (k : List α) :
    mono x k = mono x (k.filter p) * mono x (k.filter (fun i => !p i)) := by
  induction k with
  | nil => simp [mono]
  | cons a l ih =>
    by_cases h : p a = true
    · rw [List.filter_cons_of_pos h, List.filter_cons_of_neg (by simp [h]), mono_cons,
        mono_cons, ih]
      ring
    · rw [List.filter_cons_of_neg h, List.filter_cons_of_pos (by simpa using h), mono_cons,
        mono_cons, ih]
      ring

/-- the same with a decidable `Prop`-valued predicate, in the order `fout * fin` -/
theorem mono_split (x : α → R) (S : α → Prop) [DecidablePred S] (k : List α) :
    mono x k = mono x (k.filter (fun i => decide (¬ S i)))
      * mono x (k.filter (fun i => decide (S i))) := by
  rw [mono_filter_mul x (fun i => decide (S i)) k, mul_comm]
  have : (fun i => !decide (S i)) = (fun i => decide (¬ S i)) := by
    funext i; simp
  rw [this]

theorem filter_length_add (p : α → Bool) (k : List α) :
    (k.filter p).length + (k.filter (fun i => !p i)).length = k.length := by
  induction k with
  | nil => simp
  | cons a l ih =>
    by_cases h : p a = true
    · rw [List.filter_cons_of_pos h, List.filter_cons_of_neg (by simp [h]), List.length_cons,
        List.length_cons]
      omega
    · rw [List.filter_cons_of_neg h, List.filter_cons_of_pos (by simpa using h),
        List.length_cons, List.length_cons]
      omega

theorem split_length_add (S : α → Prop) [DecidablePred S] (k : List α) :
    (k.filter (fun i => decide (¬ S i))).length + (k.filter (fun i => decide (S i))).length
      = k.length := by
  have h := filter_length_add (fun i => decide (S i)) k
  have : (fun i => !decide (S i)) = (fun i => decide (¬ S i)) := by
    funext i; simp
  rw [this] at h
  omega

theorem mem_filter_iff (p : α → Bool) (k : List α) (i : α) :
    i ∈ k.filter p ↔ i ∈ k ∧ p i = true := List.mem_filter

theorem memset_filter [DecidableEq α] (p : α → Bool) (k : List α) :
    (k.filter p).toFinset = k.toFinset.filter (fun i => p i = true) := by
  ext i
  simp

/-- `memset (fin k S) = memset k ∩ S` for a finite set `S` -/
theorem memset_filter_mem [DecidableEq α] (S : Finset α) (k : List α) :
    (k.filter (fun i => decide (i ∈ S))).toFinset = k.toFinset ∩ S := by
  ext i
  simp

/-- `memset (fout k S) = memset k \ S` for a finite set `S` -/
theorem memset_filter_notMem [DecidableEq α] (S : Finset α) (k : List α) :
    (k.filter (fun i => decide (i ∉ S))).toFinset = k.toFinset \ S := by
  ext i
  simp

theorem forall_mem_filter {P : α → Prop} (p : α → Bool) {k : List α} (h : ∀ i ∈ k, P i) :
    ∀ i ∈ k.filter p, P i :=
  fun i hi => h i (List.mem_filter.mp hi).1

/-- the "value product" link: if the assignment takes the values `d` on the labels of the
part, the product of those values is the monomial of the part. -/
theorem mono_value_product {x d : α → R} (p : α → Bool) (k : List α)
    (h : ∀ i ∈ k.filter p, x i = d i) :
    mono x (k.filter p) = ((k.filter p).map d).prod :=
  mono_congr h

theorem value_product_nil (d : α → R) : (([] : List α).map d).prod = 1 := by simp

end L10

section L10sq
variable [LinearOrder α]

theorem bsq_eq_self_iff {k : List α} : bsq k = k ↔ k.Pairwise (· ≤ ·) ∧ k.Nodup := by
  constructor
  · intro h
    rw [← h]
    exact ⟨bsq_sorted k, bsq_nodup k⟩
  · rintro ⟨hs, hn⟩
    exact bsq_of_sorted_nodup hs hn

/-- `ssq k = k` iff `k` is sorted and duplicate-free (then every member has count `1`). -/
theorem ssq_eq_self_iff {k : List α} : ssq k = k ↔ k.Pairwise (· ≤ ·) ∧ k.Nodup := by
  constructor
  · intro h
    rw [← h]
    exact ⟨ssq_sorted k, ssq_nodup k⟩
  · rintro ⟨hs, hn⟩
    exact ssq_of_sorted_nodup hs hn

theorem bsq_eq_self_iff_ssq_eq_self {k : List α} : bsq k = k ↔ ssq k = k := by
  rw [bsq_eq_self_iff, ssq_eq_self_iff]

/-- a subsequence of a canonical key is canonical -/
theorem bsq_of_sublist {l k : List α} (hl : l.Sublist k) (hk : bsq k = k) : bsq l = l := by
  obtain ⟨hs, hn⟩ := bsq_eq_self_iff.mp hk
  exact bsq_of_sorted_nodup (hs.sublist hl) (hn.sublist hl)

theorem ssq_of_sublist {l k : List α} (hl : l.Sublist k) (hk : ssq k = k) : ssq l = l := by
  obtain ⟨hs, hn⟩ := ssq_eq_self_iff.mp hk
  exact ssq_of_sorted_nodup (hs.sublist hl) (hn.sublist hl)

theorem bsq_filter (p : α → Bool) {k : List α} (hk : bsq k = k) :
    bsq (k.filter p) = k.filter p :=
  bsq_of_sublist List.filter_sublist hk

theorem ssq_filter (p : α → Bool) {k : List α} (hk : ssq k = k) :
    ssq (k.filter p) = k.filter p :=
  ssq_of_sublist List.filter_sublist hk

theorem bsq_tail {k : List α} (hk : bsq k = k) : bsq k.tail = k.tail :=
  bsq_of_sublist (List.tail_sublist k) hk

theorem ssq_tail {k : List α} (hk : ssq k = k) : ssq k.tail = k.tail :=
  ssq_of_sublist (List.tail_sublist k) hk

end L10sq

/-! ## L17 : removing a pair of labels from a key (degree reduction by substitution) -/

section L17
variable [CommRing R] [DecidableEq α] {x : α → R}

theorem bool_mul_self {r : R} (hr : r = 0 ∨ r = 1) : r * r = r := by
  rcases hr with h | h <;> simp [h]

/-- the monomial of the sub-list of all occurrences of `a` and `b` -/
theorem mono_removed_pair (hx : ∀ i, x i = 0 ∨ x i = 1) (a b : α) (k : List α) :
    mono x (k.filter (fun i => decide (i = a ∨ i = b)))
      = (if a ∈ k then x a else 1) * (if b ∈ k ∧ b ≠ a then x b else 1) := by
  have key : mono x (k.filter (fun i => decide (i = a ∨ i = b)))
      = mono x ((if a ∈ k then [a] else []) ++ (if b ∈ k ∧ b ≠ a then [b] else [])) := by
    apply mono_bool_same_members hx
    intro i
    simp only [List.mem_filter, List.mem_append, decide_eq_true_eq]
    by_cases hba : b = a
    · subst hba
      by_cases hb : b ∈ k
      · simp only [hb, if_true, ne_eq, not_true_eq_false, and_false, if_false, or_self,
          List.mem_singleton, List.not_mem_nil, or_false]
        constructor
        · exact fun h => h.2
        · rintro rfl; exact ⟨hb, rfl⟩
      · simp only [hb, if_false, false_and, or_self, List.not_mem_nil, iff_false, not_and]
        rintro hi rfl; exact hb hi
    · by_cases ha : a ∈ k <;> by_cases hb : b ∈ k
      all_goals simp only [ha, hb, hba, ne_eq, not_false_eq_true, and_self, and_true,
        if_true, if_false, List.mem_singleton, List.not_mem_nil, or_false, false_or,
        or_self, iff_false, not_and, not_or]
      · constructor
        · exact fun h => h.2
        · rintro (rfl | rfl)
          · exact ⟨ha, Or.inl rfl⟩
          · exact ⟨hb, Or.inr rfl⟩
      · constructor
        · rintro ⟨hi, rfl | rfl⟩
          · rfl
          · exact absurd hi hb
        · rintro rfl; exact ⟨ha, Or.inl rfl⟩
      · constructor
        · rintro ⟨hi, rfl | rfl⟩
          · exact absurd hi ha
          · rfl
        · rintro rfl; exact ⟨hb, Or.inr rfl⟩
      · rintro hi
        exact ⟨fun h => ha (h ▸ hi), fun h => hb (h ▸ hi)⟩
  rw [key, mono_append]
  by_cases ha : a ∈ k <;> by_cases hb : b ∈ k ∧ b ≠ a <;> simp [ha, hb, mono_nil, mono_singleton]

/-- a key containing `a` and `b`: the remaining labels times `x a * x b` -/
theorem mono_reduce_pair (hx : ∀ i, x i = 0 ∨ x i = 1) (a b : α) (k : List α) (ha : a ∈ k)
    (hb : b ∈ k) :
    mono x k = mono x (k.filter (fun i => decide (¬ (i = a ∨ i = b)))) * (x a * x b) := by
  rw [mono_split x (fun i => i = a ∨ i = b) k, mono_removed_pair hx a b k]
  by_cases hba : b = a
  · subst hba
    simp [ha, bool_mul_self (hx b)]
  · simp [ha, hb, hba]

/-- the same after substituting an auxiliary label `z` whose value is the product -/
theorem mono_reduce_pair_subst (hx : ∀ i, x i = 0 ∨ x i = 1) (a b z : α) (k : List α)
    (ha : a ∈ k) (hb : b ∈ k) (hz : x z = x a * x b) :
    mono x k = mono x (k.filter (fun i => decide (¬ (i = a ∨ i = b)))) * x z := by
  rw [hz]
  exact mono_reduce_pair hx a b k ha hb

end L17

section L17real

theorem gadget_never_undercuts (xa xb z m v lam : ℝ) (hxa : xa = 0 ∨ xa = 1)
    (hxb : xb = 0 ∨ xb = 1) (hz : z = 0 ∨ z = 1) (hm : m = 0 ∨ m = 1) (hlam : |v| ≤ lam) :
    v * (xa * xb) * m ≤ lam * (3 * z + xa * xb - 2 * xa * z - 2 * xb * z) + v * z * m := by
  obtain ⟨h1, h2⟩ := abs_le.mp hlam
  rcases hxa with rfl | rfl <;> rcases hxb with rfl | rfl <;> rcases hz with rfl | rfl <;>
    rcases hm with rfl | rfl <;> norm_num <;> linarith

theorem gadget_exact (xa xb z lam : ℝ) (hz : z = xa * xb) (hxa : xa = 0 ∨ xa = 1)
    (hxb : xb = 0 ∨ xb = 1) : lam * (3 * z + xa * xb - 2 * xa * z - 2 * xb * z) = 0 := by
  subst hz
  rcases hxa with rfl | rfl <;> rcases hxb with rfl | rfl <;> norm_num

end L17real

/-! ## set-facts : `memset k = k.toFinset`, cardinalities -/

section SetFacts
variable [DecidableEq α]

theorem memset_nil : ([] : List α).toFinset = ∅ := List.toFinset_nil

theorem memset_singleton (i : α) : [i].toFinset = {i} := by simp

theorem memset_pair (i j : α) : [i, j].toFinset = insert j (insert i ∅) := by
  ext a
  simp only [List.toFinset_cons, List.toFinset_nil, Finset.mem_insert]
  tauto

theorem memset_cons (i : α) (k : List α) : (i :: k).toFinset = insert i k.toFinset :=
  List.toFinset_cons

theorem memset_append (a b : List α) : (a ++ b).toFinset = a.toFinset ∪ b.toFinset :=
  List.toFinset_append

theorem mem_memset (i : α) (k : List α) : i ∈ k.toFinset ↔ i ∈ k := List.mem_toFinset

theorem card_insert_ite (i : α) (s : Finset α) :
    (insert i s).card = s.card + (if i ∈ s then 0 else 1) := by
  by_cases h : i ∈ s
  · rw [Finset.card_insert_of_mem h, if_pos h, add_zero]
  · rw [Finset.card_insert_of_notMem h, if_neg h]

theorem memset_card_le (k : List α) : k.toFinset.card ≤ k.length := List.toFinset_card_le k

end SetFacts

section SetFactsSq
variable [LinearOrder α]

theorem memset_bsq (k : List α) : (bsq k).toFinset = k.toFinset := by
  ext i
  rw [List.mem_toFinset, List.mem_toFinset, mem_bsq]

theorem memset_ssq_subset (k : List α) : (ssq k).toFinset ⊆ k.toFinset := by
  intro i hi
  rw [List.mem_toFinset] at hi ⊢
  exact ssq_subset k i hi

theorem memset_srt (k : List α) : (srt k).toFinset = k.toFinset := by
  ext i
  rw [List.mem_toFinset, List.mem_toFinset, mem_srt]

/-- the length of the boolean canonical key is the number of distinct members -/
theorem bsq_length_eq_card (k : List α) : (bsq k).length = k.toFinset.card := by
  rw [← memset_bsq, List.toFinset_card_of_nodup (bsq_nodup k)]

end SetFactsSq

/-! ## L6 / L7 : slack ancillas;  L8 : `num_bits` -/

section Slack
open Finset

/-- the integer value of a bit -/
def bitval (a : ℕ → Bool) (i : ℕ) : ℕ := if a i then 1 else 0

/-- `slack(·, n, log)`: `∑ i < n, w_i * a_i` with `w_i = 2^i` (log) or `1` (unary) -/
def slack (log : Bool) (a : ℕ → Bool) (n : ℕ) : ℕ :=
  ∑ i ∈ range n, (if log then 2 ^ i else 1) * bitval a i

/-- largest encodable value -/
def cap (log : Bool) (n : ℕ) : ℕ := if log then 2 ^ n - 1 else n

theorem slack_zero (log : Bool) (a : ℕ → Bool) : slack log a 0 = 0 := by simp [slack]

/-- the unfolding emitted by `Facts.slack_step` -/
theorem slack_succ (log : Bool) (a : ℕ → Bool) (n : ℕ) :
    slack log a (n + 1) = slack log a n + (if a n then (if log then 2 ^ n else 1) else 0) := by
  unfold slack bitval
  rw [Finset.sum_range_succ]
  by_cases h : a n = true <;> simp [h]

/-- the facts of `Facts.pow2_term` -/
theorem pow2_pos (i : ℕ) : 1 ≤ 2 ^ i := Nat.one_le_two_pow
theorem pow2_zero : 2 ^ 0 = 1 := rfl
theorem pow2_succ (i : ℕ) : 2 ^ (i + 1) = 2 * 2 ^ i := by rw [pow_succ, mul_comm]

theorem slack_log_lt (a : ℕ → Bool) (b : ℕ) : slack true a b < 2 ^ b := by
  induction b with
  | zero => simp [slack]
  | succ n ih =>
    rw [slack_succ, pow_succ]
    by_cases h : a n = true <;> simp [h] <;> omega

/-- L6, upper bound: every log-slack value is `≤ 2^b - 1`. -/
theorem slack_log_le (a : ℕ → Bool) (b : ℕ) : slack true a b ≤ 2 ^ b - 1 := by
  have := slack_log_lt a b
  omega

/-- L6, attainment: every `s < 2^b` is the value of some setting of the `b` bits. -/
theorem slack_log_attained_of_lt (b s : ℕ) (hs : s < 2 ^ b) :
    ∃ a : ℕ → Bool, slack true a b = s := by
  induction b generalizing s with
  | zero =>
    refine ⟨fun _ => false, ?_⟩
    rw [slack_zero]
    simp at hs
    omega
  | succ n ih =>
    have hpos : 0 < 2 ^ n := Nat.two_pow_pos n
    have hlt : s % 2 ^ n < 2 ^ n := Nat.mod_lt _ hpos
    obtain ⟨a', ha'⟩ := ih (s % 2 ^ n) hlt
    have hdiv : s / 2 ^ n < 2 := by
      rw [Nat.div_lt_iff_lt_mul hpos]
      rw [pow_succ] at hs
      omega
    refine ⟨fun i => if i < n then a' i else decide (s / 2 ^ n = 1), ?_⟩
    rw [slack_succ]
    have hagree : slack true (fun i => if i < n then a' i else decide (s / 2 ^ n = 1)) n
        = slack true a' n := by
      unfold slack bitval
      refine Finset.sum_congr rfl (fun i hi => ?_)
      have hi' : i < n := Finset.mem_range.mp hi
      simp only [if_pos hi']
    rw [hagree, ha']
    have hdecomp := Nat.mod_add_div s (2 ^ n)
    simp only [lt_irrefl, if_false, if_true, decide_eq_true_eq]
    by_cases h1 : s / 2 ^ n = 1
    · rw [if_pos h1]
      rw [h1, mul_one] at hdecomp
      exact hdecomp
    · rw [if_neg h1]
      have h0 : s / 2 ^ n = 0 := by
        generalize s / 2 ^ n = q at hdiv h1
        omega
      rw [h0, mul_zero] at hdecomp
      exact hdecomp

theorem slack_log_attained (b s : ℕ) (hs : s ≤ 2 ^ b - 1) :
    ∃ a : ℕ → Bool, slack true a b = s := by
  apply slack_log_attained_of_lt
  have : 1 ≤ 2 ^ b := Nat.one_le_two_pow
  omega

/-- L6 in the raw form: `∑ i < b, 2^i * [a i]`. -/
theorem sum_pow2_bits_attained (b s : ℕ) (hs : s ≤ 2 ^ b - 1) :
    ∃ a : ℕ → Bool, ∑ i ∈ range b, 2 ^ i * (if a i then 1 else 0) = s := by
  obtain ⟨a, ha⟩ := slack_log_attained b s hs
  refine ⟨a, ?_⟩
  rw [← ha]
  unfold slack bitval
  simp

theorem sum_pow2_bits_le (b : ℕ) (a : ℕ → Bool) :
    ∑ i ∈ range b, 2 ^ i * (if a i then 1 else 0) ≤ 2 ^ b - 1 := by
  have h := slack_log_le a b
  unfold slack bitval at h
  simpa using h

/-- the characterization: the attainable log-slack values are exactly `0 .. 2^b - 1`. -/
theorem slack_log_range (b s : ℕ) : (∃ a : ℕ → Bool, slack true a b = s) ↔ s ≤ 2 ^ b - 1 := by
  constructor
  · rintro ⟨a, rfl⟩
    exact slack_log_le a b
  · exact slack_log_attained b s

/-- L7, upper bound: the number of true bits among `n` is `≤ n`. -/
theorem slack_unary_le (a : ℕ → Bool) (n : ℕ) : slack false a n ≤ n := by
  induction n with
  | zero => simp [slack]
  | succ m ih =>
    rw [slack_succ]
    by_cases h : a m = true <;> simp [h] <;> omega

/-- L7, attainment: every `s ≤ n` is the number of true bits of some setting. -/
theorem slack_unary_attained (n s : ℕ) (hs : s ≤ n) :
    ∃ a : ℕ → Bool, slack false a n = s := by
  refine ⟨fun i => decide (i < s), ?_⟩
  unfold slack bitval
  simp only [Bool.false_eq_true, if_false, one_mul, decide_eq_true_eq]
  rw [Finset.sum_ite, Finset.sum_const_zero, add_zero, Finset.sum_const, smul_eq_mul, mul_one]
  have : (Finset.range n).filter (fun i => i < s) = Finset.range s := by
    ext i
    simp only [Finset.mem_filter, Finset.mem_range]
    omega
  rw [this, Finset.card_range]

theorem slack_unary_range (n s : ℕ) : (∃ a : ℕ → Bool, slack false a n = s) ↔ s ≤ n := by
  constructor
  · rintro ⟨a, rfl⟩
    exact slack_unary_le a n
  · exact slack_unary_attained n s

/-- L7 in the raw form -/
theorem sum_bits_attained (n s : ℕ) (hs : s ≤ n) :
    ∃ a : ℕ → Bool, ∑ i ∈ range n, (if a i then 1 else 0) = s := by
  obtain ⟨a, ha⟩ := slack_unary_attained n s hs
  refine ⟨a, ?_⟩
  rw [← ha]
  unfold slack bitval
  simp

theorem sum_bits_le (n : ℕ) (a : ℕ → Bool) : ∑ i ∈ range n, (if a i then 1 else 0) ≤ n := by
  have h := slack_unary_le a n
  unfold slack bitval at h
  simpa using h

/-- L6/L7 together, as used by the verifier: `0 ≤ slack ≤ cap`, all values attained. -/
theorem slack_le_cap (log : Bool) (a : ℕ → Bool) (n : ℕ) : slack log a n ≤ cap log n := by
  cases log
  · simpa [cap] using slack_unary_le a n
  · simpa [cap] using slack_log_le a n

theorem slack_attained (log : Bool) (n s : ℕ) (hs : s ≤ cap log n) :
    ∃ a : ℕ → Bool, slack log a n = s := by
  cases log
  · exact slack_unary_attained n s (by simpa [cap] using hs)
  · exact slack_log_attained n s (by simpa [cap] using hs)

/-- the variant with bits indexed by `Fin n` -/
theorem slack_attained_fin (log : Bool) (n s : ℕ) (hs : s ≤ cap log n) :
    ∃ a : Fin n → Bool,
      ∑ i : Fin n, (if log then 2 ^ (i : ℕ) else 1) * (if a i then 1 else 0) = s := by
  obtain ⟨a, ha⟩ := slack_attained log n s hs
  refine ⟨fun i => a i, ?_⟩
  rw [← ha]
  unfold slack bitval
  exact (Finset.sum_range
    (fun i => (if log then 2 ^ i else 1) * (if a i then 1 else 0))).symm

/-! ### L8 : `num_bits v log = bit_length ⌈v⌉ (log) or ⌈v⌉ (unary)` -/

/-- `num_bits` of qubovert; `Nat.size` is Python's `int.bit_length`. -/
noncomputable def numBits (log : Bool) (v : ℝ) : ℕ := if log then Nat.size ⌈v⌉₊ else ⌈v⌉₊

theorem nat_le_cap_size (v : ℕ) : v ≤ 2 ^ Nat.size v - 1 := by
  have := Nat.lt_size_self v
  omega

theorem real_le_ceil (v : ℝ) : v ≤ (⌈v⌉₊ : ℝ) := Nat.le_ceil v

theorem real_le_cap_size (v : ℝ) : v ≤ (2 : ℝ) ^ Nat.size ⌈v⌉₊ - 1 := by
  have h1 : v ≤ (⌈v⌉₊ : ℝ) := Nat.le_ceil v
  have h2 : ⌈v⌉₊ + 1 ≤ 2 ^ Nat.size ⌈v⌉₊ := Nat.lt_size_self _
  have h3 : ((⌈v⌉₊ + 1 : ℕ) : ℝ) ≤ ((2 ^ Nat.size ⌈v⌉₊ : ℕ) : ℝ) := Nat.cast_le.mpr h2
  push_cast at h3
  linarith

/-- L8: `cap (num_bits v) ≥ v` (as reals), in both encodings. -/
theorem le_cap_numBits (log : Bool) (v : ℝ) : v ≤ (cap log (numBits log v) : ℝ) := by
  cases log
  · simpa [cap, numBits] using real_le_ceil v
  · have h := real_le_cap_size v
    have hc : ((2 ^ Nat.size ⌈v⌉₊ - 1 : ℕ) : ℝ) = (2 : ℝ) ^ Nat.size ⌈v⌉₊ - 1 := by
      rw [Nat.cast_sub Nat.one_le_two_pow]
      push_cast
      ring
    simp only [cap, numBits, if_true]
    rw [hc]
    exact h

/-- hence every integer `0 ≤ s ≤ v` is encodable by `num_bits v` ancillas. -/
theorem slack_attained_numBits (log : Bool) (v : ℝ) (s : ℕ) (hs : (s : ℝ) ≤ v) :
    ∃ a : ℕ → Bool, slack log a (numBits log v) = s := by
  apply slack_attained
  have h := le_trans hs (le_cap_numBits log v)
  exact_mod_cast h

end Slack

/-! ## L11-enum : a finite set / dict with exactly `n` entries, `n` of which are known and distinct -/

section L11
variable {κ : Type*} {M : Type*} {N : Type*}

/-- A finite set of cardinality `n` that contains `n` pairwise distinct elements has no others. -/
theorem finset_eq_of_card_nodup [DecidableEq κ] {s : Finset κ} {l : List κ} (hnd : l.Nodup)
    (hmem : ∀ k ∈ l, k ∈ s) (hcard : s.card = l.length) : s = l.toFinset := by
  symm
  apply Finset.eq_of_subset_of_card_le
  · intro k hk
    exact hmem k (List.mem_toFinset.mp hk)
  · rw [List.toFinset_card_of_nodup hnd, hcard]

/-- membership form (no decidable equality needed to state it) -/
theorem mem_iff_of_card_nodup {s : Finset κ} {l : List κ} (hnd : l.Nodup)
    (hmem : ∀ k ∈ l, k ∈ s) (hcard : s.card = l.length) (k : κ) : k ∈ s ↔ k ∈ l := by
  classical
  rw [finset_eq_of_card_nodup hnd hmem hcard, List.mem_toFinset]

/-- every sum fold of the dict `(s, f)` is the sum over the enumerated keys -/
theorem dict_sum_enum [AddCommMonoid N] {s : Finset κ} {l : List κ} (hnd : l.Nodup)
    (hmem : ∀ k ∈ l, k ∈ s) (hcard : s.card = l.length) (f : κ → M) (t : κ → M → N) :
    ∑ i ∈ s, t i (f i) = (l.map (fun i => t i (f i))).sum := by
  classical
  rw [finset_eq_of_card_nodup hnd hmem hcard, List.sum_toFinset _ hnd]

/-- every all fold of the dict `(s, f)` is the conjunction over the enumerated keys -/
theorem dict_all_enum {s : Finset κ} {l : List κ} (hnd : l.Nodup)
    (hmem : ∀ k ∈ l, k ∈ s) (hcard : s.card = l.length) (f : κ → M) (P : κ → M → Prop) :
    (∀ i ∈ s, P i (f i)) ↔ ∀ i ∈ l, P i (f i) := by
  constructor
  · exact fun h i hi => h i (hmem i hi)
  · exact fun h i hi => h i ((mem_iff_of_card_nodup hnd hmem hcard i).mp hi)

/-- the finitely supported form: `d : κ →₀ M` with exactly `n` non-zero entries -/
theorem finsupp_sum_enum [Zero M] [AddCommMonoid N] {d : κ →₀ M} {l : List κ} (hnd : l.Nodup)
    (hmem : ∀ k ∈ l, d k ≠ 0) (hcard : d.support.card = l.length) (t : κ → M → N) :
    d.sum t = (l.map (fun i => t i (d i))).sum :=
  dict_sum_enum hnd (fun k hk => Finsupp.mem_support_iff.mpr (hmem k hk)) hcard (⇑d) t

/-! ### the domain / value chain built by `nth_item`
(`alt = {}; alt[k_1] = d[k_1]; …; alt[k_n] = d[k_n]`) -/

theorem dict_dom_chain [DecidableEq κ] (l : List κ) (s0 : Finset κ) :
    l.foldl (fun s k => insert k s) s0 = s0 ∪ l.toFinset := by
  induction l generalizing s0 with
  | nil => simp
  | cons a l ih =>
    rw [List.foldl_cons, ih]
    ext i
    simp only [Finset.mem_union, Finset.mem_insert, List.toFinset_cons]
    tauto

theorem dict_dom_chain_empty [DecidableEq κ] (l : List κ) :
    l.foldl (fun s k => insert k s) (∅ : Finset κ) = l.toFinset := by
  rw [dict_dom_chain, Finset.empty_union]

theorem dict_val_chain [DecidableEq κ] (l : List κ) (f g : κ → M) (i : κ) :
    l.foldl (fun g k => Function.update g k (f k)) g i = if i ∈ l then f i else g i := by
  induction l generalizing g with
  | nil => simp
  | cons a l ih =>
    rw [List.foldl_cons, ih]
    by_cases hi : i ∈ l
    · simp [hi]
    · by_cases hia : i = a
      · subst hia
        simp [hi]
      · simp [hi, hia]

/-- L11 exactly as emitted: `dom d = dom alt` and every sum fold of `d` is the sum fold of `alt`. -/
theorem dict_enum_chain [DecidableEq κ] [AddCommMonoid N] {s : Finset κ} {l : List κ}
    (hnd : l.Nodup) (hmem : ∀ k ∈ l, k ∈ s) (hcard : s.card = l.length) (f g : κ → M)
    (t : κ → M → N) :
    s = l.foldl (fun s k => insert k s) ∅ ∧
      ∑ i ∈ s, t i (f i)
        = ∑ i ∈ l.foldl (fun s k => insert k s) ∅,
            t i (l.foldl (fun g k => Function.update g k (f k)) g i) := by
  have hs : s = l.toFinset := finset_eq_of_card_nodup hnd hmem hcard
  rw [dict_dom_chain_empty]
  refine ⟨hs, ?_⟩
  rw [← hs]
  refine Finset.sum_congr rfl (fun i hi => ?_)
  rw [dict_val_chain, if_pos ((mem_iff_of_card_nodup hnd hmem hcard i).mp hi)]

/-! ### the instances `n = 0, 1, 2, 3` used by the verifier -/

theorem finset_card_zero_enum {s : Finset κ} (hcard : s.card = 0) : s = ∅ :=
  Finset.card_eq_zero.mp hcard

theorem finset_card_one_enum [DecidableEq κ] {s : Finset κ} {k₁ : κ} (hcard : s.card = 1)
    (h₁ : k₁ ∈ s) : s = {k₁} := by
  have h := finset_eq_of_card_nodup (s := s) (l := [k₁]) (by simp) (by simpa using h₁)
    (by simpa using hcard)
  simpa using h

theorem finset_card_two_enum [DecidableEq κ] {s : Finset κ} {k₁ k₂ : κ} (hcard : s.card = 2)
    (h₁ : k₁ ∈ s) (h₂ : k₂ ∈ s) (h12 : k₁ ≠ k₂) : s = {k₁, k₂} := by
  have h := finset_eq_of_card_nodup (s := s) (l := [k₁, k₂]) (by simp [h12])
    (by simp [h₁, h₂]) (by simpa using hcard)
  simpa using h

theorem finset_card_three_enum [DecidableEq κ] {s : Finset κ} {k₁ k₂ k₃ : κ}
    (hcard : s.card = 3) (h₁ : k₁ ∈ s) (h₂ : k₂ ∈ s) (h₃ : k₃ ∈ s) (h12 : k₁ ≠ k₂)
    (h13 : k₁ ≠ k₃) (h23 : k₂ ≠ k₃) : s = {k₁, k₂, k₃} := by
  have h := finset_eq_of_card_nodup (s := s) (l := [k₁, k₂, k₃]) (by simp [h12, h13, h23])
    (by simp [h₁, h₂, h₃]) (by simpa using hcard)
  simpa using h

theorem dict_sum_enum_zero [AddCommMonoid N] {s : Finset κ} (hcard : s.card = 0) (f : κ → M)
    (t : κ → M → N) : ∑ i ∈ s, t i (f i) = 0 := by
  rw [finset_card_zero_enum hcard, Finset.sum_empty]

theorem dict_sum_enum_one [AddCommMonoid N] {s : Finset κ} {k₁ : κ} (hcard : s.card = 1)
    (h₁ : k₁ ∈ s) (f : κ → M) (t : κ → M → N) : ∑ i ∈ s, t i (f i) = t k₁ (f k₁) := by
  have h := dict_sum_enum (s := s) (l := [k₁]) (by simp) (by simpa using h₁)
    (by simpa using hcard) f t
  simpa using h

theorem dict_sum_enum_two [AddCommMonoid N] {s : Finset κ} {k₁ k₂ : κ} (hcard : s.card = 2)
    (h₁ : k₁ ∈ s) (h₂ : k₂ ∈ s) (h12 : k₁ ≠ k₂) (f : κ → M) (t : κ → M → N) :
    ∑ i ∈ s, t i (f i) = t k₁ (f k₁) + t k₂ (f k₂) := by
  have h := dict_sum_enum (s := s) (l := [k₁, k₂]) (by simp [h12]) (by simp [h₁, h₂])
    (by simpa using hcard) f t
  simpa using h

theorem dict_sum_enum_three [AddCommMonoid N] {s : Finset κ} {k₁ k₂ k₃ : κ}
    (hcard : s.card = 3) (h₁ : k₁ ∈ s) (h₂ : k₂ ∈ s) (h₃ : k₃ ∈ s) (h12 : k₁ ≠ k₂)
    (h13 : k₁ ≠ k₃) (h23 : k₂ ≠ k₃) (f : κ → M) (t : κ → M → N) :
    ∑ i ∈ s, t i (f i) = t k₁ (f k₁) + t k₂ (f k₂) + t k₃ (f k₃) := by
  have h := dict_sum_enum (s := s) (l := [k₁, k₂, k₃]) (by simp [h12, h13, h23])
    (by simp [h₁, h₂, h₃]) (by simpa using hcard) f t
  rw [h]
  simp [add_assoc]

theorem dict_all_enum_zero {s : Finset κ} (hcard : s.card = 0) (f : κ → M)
    (P : κ → M → Prop) : ∀ i ∈ s, P i (f i) := by
  rw [finset_card_zero_enum hcard]
  simp

theorem dict_all_enum_one {s : Finset κ} {k₁ : κ} (hcard : s.card = 1) (h₁ : k₁ ∈ s)
    (f : κ → M) (P : κ → M → Prop) : (∀ i ∈ s, P i (f i)) ↔ P k₁ (f k₁) := by
  have h := dict_all_enum (s := s) (l := [k₁]) (by simp) (by simpa using h₁)
    (by simpa using hcard) f P
  simpa using h

theorem dict_all_enum_two {s : Finset κ} {k₁ k₂ : κ} (hcard : s.card = 2) (h₁ : k₁ ∈ s)
    (h₂ : k₂ ∈ s) (h12 : k₁ ≠ k₂) (f : κ → M) (P : κ → M → Prop) :
    (∀ i ∈ s, P i (f i)) ↔ P k₁ (f k₁) ∧ P k₂ (f k₂) := by
  have h := dict_all_enum (s := s) (l := [k₁, k₂]) (by simp [h12]) (by simp [h₁, h₂])
    (by simpa using hcard) f P
  simpa using h

theorem dict_all_enum_three {s : Finset κ} {k₁ k₂ k₃ : κ} (hcard : s.card = 3) (h₁ : k₁ ∈ s)
    (h₂ : k₂ ∈ s) (h₃ : k₃ ∈ s) (h12 : k₁ ≠ k₂) (h13 : k₁ ≠ k₃) (h23 : k₂ ≠ k₃) (f : κ → M)
    (P : κ → M → Prop) :
    (∀ i ∈ s, P i (f i)) ↔ P k₁ (f k₁) ∧ P k₂ (f k₂) ∧ P k₃ (f k₃) := by
  have h := dict_all_enum (s := s) (l := [k₁, k₂, k₃]) (by simp [h12, h13, h23])
    (by simp [h₁, h₂, h₃]) (by simpa using hcard) f P
  simpa using h

/-- the fold `size` (sum fold with term `1`, integer valued) is the cardinality of the key set -/
theorem dict_size_eq_card (s : Finset κ) : ∑ _i ∈ s, (1 : ℤ) = (s.card : ℤ) := by
  simp

/-- the facts `nth_item` states about the items themselves: the first `n` items of a dict of
size `≥ n` can be chosen as pairwise distinct members (existence of an enumeration). -/
theorem exists_enum (s : Finset κ) :
    ∃ l : List κ, l.Nodup ∧ (∀ k, k ∈ l ↔ k ∈ s) ∧ l.length = s.card :=
  ⟨s.toList, s.nodup_toList, fun _ => Finset.mem_toList, Finset.length_toList s⟩

end L11

/-! ## L12-count, L13-origin : the value of a dict at an assignment -/

section DVal
variable [CommRing R]

/-- value of the polynomial stored as the dict with key set `s` and coefficient map `f`, at the
assignment `x` (`bden` for `x = xval`, `sden` for `x = zval`, `aden`/`asden` at the second
ghost assignment) -/
def dval (x : α → R) (s : Finset (List α)) (f : List α → R) : R := ∑ k ∈ s, f k * mono x k

/-- the linearised term `_bterm` of `folds.py` is `v * bmono k` -/
theorem bterm_eq_mul [DecidableEq R] (v m : R) :
    (if m = 0 then 0 else if m = 1 then v else v * m) = v * m := by
  split_ifs with h0 h1
  · rw [h0, mul_zero]
  · rw [h1, mul_one]
  · rfl

/-- the linearised term `_sterm` of `folds.py` is `v * smono k` -/
theorem sterm_eq_mul [DecidableEq R] (v m : R) :
    (if m = 1 then v else if m = -1 then -v else v * m) = v * m := by
  split_ifs with h0 h1
  · rw [h0, mul_one]
  · rw [h1, mul_neg, mul_one]
  · rfl

/-! ### L12-count -/

/-- for a 0/1 assignment the sum of the monomials is the number of monomials equal to `1` -/
theorem sum_mono_bool_eq_count [DecidableEq R] {x : α → R} (hx : ∀ i, x i = 0 ∨ x i = 1)
    (s : Finset (List α)) :
    ∑ k ∈ s, mono x k = ((s.filter (fun k => mono x k = 1)).card : R) := by
  rw [Finset.card_filter]
  push_cast
  refine Finset.sum_congr rfl (fun k _ => ?_)
  split_ifs with h
  · exact h
  · rcases mono_bool_range hx k with h0 | h1
    · exact h0
    · exact absurd h1 h

/-- L12: all coefficients equal to `c`  ⇒  value = `c * #{k | mono x k = 1}` -/
theorem dval_const_count [DecidableEq R] {x : α → R} (hx : ∀ i, x i = 0 ∨ x i = 1)
    (s : Finset (List α)) (f : List α → R) (c : R) (hc : ∀ k ∈ s, f k = c) :
    dval x s f = c * ((s.filter (fun k => mono x k = 1)).card : R) := by
  unfold dval
  rw [← sum_mono_bool_eq_count hx, Finset.mul_sum]
  exact Finset.sum_congr rfl (fun k hk => by rw [hc k hk])

theorem count_le_size {κ : Type*} (s : Finset κ) (p : κ → Prop) [DecidablePred p] :
    (s.filter p).card ≤ s.card := Finset.card_filter_le s p

/-- L12 in the existential form emitted by the verifier: `bden = c * cnt`, `0 ≤ cnt ≤ size`
(`cnt : ℕ`, so `0 ≤ cnt` is built in). -/
theorem dval_const_count_exists {x : α → R} (hx : ∀ i, x i = 0 ∨ x i = 1)
    (s : Finset (List α)) (f : List α → R) (c : R) (hc : ∀ k ∈ s, f k = c) :
    ∃ m : ℕ, m ≤ s.card ∧ dval x s f = c * (m : R) := by
  classical
  exact ⟨_, count_le_size s _, dval_const_count hx s f c hc⟩

/-- the same with an integer counter, literally `cnt >= 0 ∧ cnt <= size ∧ bden = c * to_real cnt` -/
theorem dval_const_count_int {x : α → ℝ} (hx : ∀ i, x i = 0 ∨ x i = 1)
    (s : Finset (List α)) (f : List α → ℝ) (c : ℝ) (hc : ∀ k ∈ s, f k = c) :
    ∃ cnt : ℤ, 0 ≤ cnt ∧ cnt ≤ (s.card : ℤ) ∧ dval x s f = c * (cnt : ℝ) := by
  obtain ⟨m, hm, h⟩ := dval_const_count_exists hx s f c hc
  refine ⟨(m : ℤ), Int.natCast_nonneg m, by exact_mod_cast hm, ?_⟩
  rw [h]
  push_cast
  rfl

/-! ### L13-origin -/

/-- at an assignment that is `0` on the labels of `k`, the monomial is `1` iff `k` is empty -/
theorem mono_of_all_zero {x : α → R} {k : List α} (h : ∀ i ∈ k, x i = 0) :
    mono x k = if k.length = 0 then 1 else 0 := by
  cases k with
  | nil => simp [mono]
  | cons a l =>
    rw [mono_cons, h a (List.mem_cons_self ..), zero_mul]
    simp

/-- at an assignment that is `1` on the labels of `k`, the monomial is `1` -/
theorem mono_of_all_one {z : α → R} {k : List α} (h : ∀ i ∈ k, z i = 1) : mono z k = 1 := by
  induction k with
  | nil => exact mono_nil z
  | cons a l ih =>
    rw [mono_cons, h a (List.mem_cons_self ..), one_mul]
    exact ih (fun i hi => h i (List.mem_cons_of_mem a hi))

/-- the origin: every boolean variable `0` -/
theorem mono_origin {x : α → R} (hx : ∀ i, x i = 0) (k : List α) :
    mono x k = if k.length = 0 then 1 else 0 :=
  mono_of_all_zero (fun i _ => hx i)

/-- at the origin every spin is `+1` … -/
theorem zval_origin {x : α → R} (hx : ∀ i, x i = 0) (i : α) : zval x i = 1 := by
  unfold zval
  rw [hx i]
  ring

/-- … so every spin monomial is `1` -/
theorem mono_zval_origin {x : α → R} (hx : ∀ i, x i = 0) (k : List α) :
    mono (zval x) k = 1 :=
  mono_of_all_one (fun i _ => zval_origin hx i)

/-- the pair of facts emitted by `_origin_key` -/
theorem origin_key {x : α → R} (hx : ∀ i, x i = 0) (k : List α) :
    mono x k = (if k.length = 0 then 1 else 0) ∧ mono (zval x) k = 1 :=
  ⟨mono_origin hx k, mono_zval_origin hx k⟩

/-- L13: the boolean value at the origin is the coefficient of the empty key (`0` if absent) -/
theorem dval_origin [DecidableEq α] {x : α → R} (hx : ∀ i, x i = 0) (s : Finset (List α))
    (f : List α → R) : dval x s f = if [] ∈ s then f [] else 0 := by
  unfold dval
  have h : ∀ k ∈ s, f k * mono x k = if k = [] then f [] else 0 := by
    intro k _
    rw [mono_origin hx k]
    cases k with
    | nil => simp
    | cons a l => simp
  rw [Finset.sum_congr rfl h, Finset.sum_ite_eq']

/-- L13, spin side: the value at the all-`(+1)` assignment is the sum of all coefficients -/
theorem dval_all_one {z : α → R} (hz : ∀ i, z i = 1) (s : Finset (List α)) (f : List α → R) :
    dval z s f = ∑ k ∈ s, f k := by
  unfold dval
  exact Finset.sum_congr rfl (fun k _ => by rw [mono_of_all_one (fun i _ => hz i), mul_one])

theorem dval_zval_origin {x : α → R} (hx : ∀ i, x i = 0) (s : Finset (List α))
    (f : List α → R) : dval (zval x) s f = ∑ k ∈ s, f k :=
  dval_all_one (zval_origin hx) s f

/-- the constant term is also the fold `constpart` of `folds.py` -/
theorem dval_origin_eq_constpart [DecidableEq α] {x : α → R} (hx : ∀ i, x i = 0)
    (s : Finset (List α)) (f : List α → R) :
    dval x s f = ∑ k ∈ s, (if k.length = 0 then f k else 0) := by
  unfold dval
  refine Finset.sum_congr rfl (fun k _ => ?_)
  rw [mono_origin hx k]
  split_ifs <;> simp

end DVal

/-! ## intp-closure : the integers inside `ℝ` -/

section Intp

/-- `intp t` : the real number `t` is an integer -/
def IsInt (x : ℝ) : Prop := ∃ k : ℤ, x = (k : ℝ)

/-- the witness fact `intp t → t = to_real k_t` is the definition -/
theorem isInt_witness {x : ℝ} (h : IsInt x) : ∃ k : ℤ, x = (k : ℝ) := h

theorem isInt_intCast (k : ℤ) : IsInt (k : ℝ) := ⟨k, rfl⟩

theorem isInt_natCast (n : ℕ) : IsInt (n : ℝ) := ⟨(n : ℤ), by push_cast; rfl⟩

theorem isInt_zero : IsInt 0 := ⟨0, by norm_num⟩
theorem isInt_one : IsInt 1 := ⟨1, by norm_num⟩
theorem isInt_neg_one : IsInt (-1) := ⟨-1, by norm_num⟩
theorem isInt_two : IsInt 2 := ⟨2, by norm_num⟩

theorem isInt_add {a b : ℝ} (ha : IsInt a) (hb : IsInt b) : IsInt (a + b) := by
  obtain ⟨m, rfl⟩ := ha
  obtain ⟨n, rfl⟩ := hb
  exact ⟨m + n, by push_cast; rfl⟩

theorem isInt_sub {a b : ℝ} (ha : IsInt a) (hb : IsInt b) : IsInt (a - b) := by
  obtain ⟨m, rfl⟩ := ha
  obtain ⟨n, rfl⟩ := hb
  exact ⟨m - n, by push_cast; rfl⟩

theorem isInt_mul {a b : ℝ} (ha : IsInt a) (hb : IsInt b) : IsInt (a * b) := by
  obtain ⟨m, rfl⟩ := ha
  obtain ⟨n, rfl⟩ := hb
  exact ⟨m * n, by push_cast; rfl⟩

theorem isInt_neg {a : ℝ} (ha : IsInt a) : IsInt (-a) := by
  obtain ⟨m, rfl⟩ := ha
  exact ⟨-m, by push_cast; rfl⟩

theorem isInt_ite (c : Prop) [Decidable c] {a b : ℝ} (ha : IsInt a) (hb : IsInt b) :
    IsInt (if c then a else b) := by
  split_ifs
  · exact ha
  · exact hb

/-- n-ary `+` and `*` (z3's `Z3_OP_ADD` / `Z3_OP_MUL` take any number of arguments) -/
theorem isInt_list_sum {l : List ℝ} (h : ∀ a ∈ l, IsInt a) : IsInt l.sum := by
  induction l with
  | nil => simpa using isInt_zero
  | cons a l ih =>
    rw [List.sum_cons]
    exact isInt_add (h a (List.mem_cons_self ..)) (ih (fun b hb => h b (List.mem_cons_of_mem a hb)))

theorem isInt_list_prod {l : List ℝ} (h : ∀ a ∈ l, IsInt a) : IsInt l.prod := by
  induction l with
  | nil => simpa using isInt_one
  | cons a l ih =>
    rw [List.prod_cons]
    exact isInt_mul (h a (List.mem_cons_self ..)) (ih (fun b hb => h b (List.mem_cons_of_mem a hb)))

/-- numerals: a rational numeral is an integer iff its (reduced) denominator is `1` -/
theorem isInt_ratCast_iff (q : ℚ) : IsInt (q : ℝ) ↔ q.den = 1 := by
  constructor
  · rintro ⟨k, hk⟩
    have hq : q = (k : ℚ) := by exact_mod_cast hk
    rw [hq]
    exact Rat.den_intCast k
  · intro h
    refine ⟨q.num, ?_⟩
    have hq : (q.num : ℚ) = q := Rat.coe_int_num_of_den_eq_one h
    exact_mod_cast hq.symm

/-- a 0/1 value is an integer (`x == 0 or x == 1` gives `intp x` by congruence) -/
theorem isInt_of_bool {x : ℝ} (h : x = 0 ∨ x = 1) : IsInt x := by
  rcases h with h | h <;> rw [h]
  · exact isInt_zero
  · exact isInt_one

/-- the abstraction is sound w.r.t. the interpreted predicate: `IsInt x ↔ x = ⌊x⌋`
(z3's `is_int`) -/
theorem isInt_iff_floor (x : ℝ) : IsInt x ↔ x = (⌊x⌋ : ℝ) := by
  constructor
  · rintro ⟨k, rfl⟩
    rw [Int.floor_intCast]
  · exact fun h => ⟨⌊x⌋, h⟩

end Intp

/-! ## L14-keyanc : the ancilla numbers occurring in a key

`isanc l` : the label is an ancilla name (`'__a<n>'`), `ancidx l : ℤ` its number (the verifier's
`ISANC : Label → Bool`, `ANCIDX : Label → Int`; counters are `Int`s, so everything here is `ℤ`-valued and the
statements are literally the ones emitted by `Facts._anc_key/_anc_concat/_anc_tail/_anc_sq`, `Facts.unit`,
`Facts.anc_label` and `folds.ancbelow_fold`).

    lanc l   := if isanc l then ancidx l + 1 else 0
    keyanc k := foldr max 0 (k.map lanc)        -- 0 for the empty key

Only the unit-key and two-label facts (`keyanc [a] = lanc a`, `keyanc [a,b] = max (lanc a) (lanc b)`) need the
hypothesis that ancilla numbers are not negative (`isanc l → 0 ≤ ancidx l`, in fact `-1 ≤` suffices); with
`ancidx` the cast of an `ℕ`-valued function they are unconditional (`keyanc_singleton_nat`, `keyanc_pair_nat`). -/

section L14
variable {isanc : α → Prop} [DecidablePred isanc] {ancidx : α → ℤ}

/-- `_lanc` : contribution of one label -/
def lanc (isanc : α → Prop) [DecidablePred isanc] (ancidx : α → ℤ) (l : α) : ℤ :=
  if isanc l then ancidx l + 1 else 0

/-- `KEYANC` : 1 + the largest ancilla number among the labels of the key, 0 if there is none -/
def keyanc (isanc : α → Prop) [DecidablePred isanc] (ancidx : α → ℤ) (k : List α) : ℤ :=
  (k.map (lanc isanc ancidx)).foldr max 0

/-- z3's `If(x >= y, x, y)` is `max x y` -/
theorem ite_ge_eq_max (x y : ℤ) : (if x ≥ y then x else y) = max x y := by
  rcases le_total y x with h | h
  · rw [if_pos h, max_eq_left h]
  · by_cases h' : x ≥ y
    · rw [if_pos h', max_eq_left h']
    · rw [if_neg h', max_eq_right h]

theorem lanc_of_isanc {l : α} (h : isanc l) : lanc isanc ancidx l = ancidx l + 1 := if_pos h

theorem lanc_of_not_isanc {l : α} (h : ¬ isanc l) : lanc isanc ancidx l = 0 := if_neg h

/-- ancilla numbers `≥ -1` (in particular `≥ 0`) give a nonnegative contribution -/
theorem lanc_nonneg {l : α} (h : isanc l → -1 ≤ ancidx l) : 0 ≤ lanc isanc ancidx l := by
  unfold lanc
  split_ifs with hl
  · have := h hl; omega
  · exact le_refl 0

theorem lanc_nonneg_of_nonneg (hidx : ∀ l, isanc l → 0 ≤ ancidx l) (l : α) :
    0 ≤ lanc isanc ancidx l :=
  lanc_nonneg (fun hl => by have := hidx l hl; omega)

/-! ### 1. small keys -/

theorem keyanc_nil : keyanc isanc ancidx [] = 0 := rfl

theorem keyanc_cons (a : α) (k : List α) :
    keyanc isanc ancidx (a :: k) = max (lanc isanc ancidx a) (keyanc isanc ancidx k) := rfl

theorem keyanc_nonneg (k : List α) : 0 ≤ keyanc isanc ancidx k := by
  induction k with
  | nil => exact le_refl 0
  | cons a l ih => rw [keyanc_cons]; exact le_max_of_le_right ih

/-- unconditional form of the unit-key fact -/
theorem keyanc_singleton_max (a : α) :
    keyanc isanc ancidx [a] = max (lanc isanc ancidx a) 0 := rfl

/-- `Facts.unit` / `_anc_key`, `n == 1` -/
theorem keyanc_singleton {a : α} (h : 0 ≤ lanc isanc ancidx a) :
    keyanc isanc ancidx [a] = lanc isanc ancidx a := by
  rw [keyanc_singleton_max, max_eq_left h]

/-- `_anc_key`, `n == 2` -/
theorem keyanc_pair {a b : α} (h : 0 ≤ lanc isanc ancidx a ∨ 0 ≤ lanc isanc ancidx b) :
    keyanc isanc ancidx [a, b] = max (lanc isanc ancidx a) (lanc isanc ancidx b) := by
  rw [keyanc_cons, keyanc_singleton_max, ← max_assoc]
  apply max_eq_left
  rcases h with h | h
  · exact le_max_of_le_left h
  · exact le_max_of_le_right h

/-- the conjunction emitted by `_anc_key` for a key with first labels `a`, `b`
(`k = []`, `k = [a]`, `k = [a, b]` are the cases `n == 0, 1, 2`) -/
theorem keyanc_key_facts (hidx : ∀ l, isanc l → 0 ≤ ancidx l) (a b : α) :
    keyanc isanc ancidx ([] : List α) = 0 ∧
    keyanc isanc ancidx [a] = lanc isanc ancidx a ∧
    keyanc isanc ancidx [a, b]
      = (if lanc isanc ancidx a ≥ lanc isanc ancidx b then lanc isanc ancidx a
         else lanc isanc ancidx b) :=
  ⟨keyanc_nil, keyanc_singleton (lanc_nonneg_of_nonneg hidx a),
   by rw [ite_ge_eq_max]; exact keyanc_pair (Or.inl (lanc_nonneg_of_nonneg hidx a))⟩

/-! ### 2. concatenation, 3. head / tail -/

/-- `_anc_concat` -/
theorem keyanc_append (a b : List α) :
    keyanc isanc ancidx (a ++ b) = max (keyanc isanc ancidx a) (keyanc isanc ancidx b) := by
  induction a with
  | nil => rw [List.nil_append, keyanc_nil, max_eq_right (keyanc_nonneg b)]
  | cons x l ih => rw [List.cons_append, keyanc_cons, keyanc_cons, ih, max_assoc]

/-- `_anc_tail` -/
theorem keyanc_head_tail {k : List α} (h : k ≠ []) :
    keyanc isanc ancidx k = max (lanc isanc ancidx (k.head h)) (keyanc isanc ancidx k.tail) := by
  cases k with
  | nil => exact absurd rfl h
  | cons a l => rfl

/-- `_anc_tail` as emitted: `Length(k) >= 1 → keyanc k = If(x >= y, x, y)` with `x = lanc k[0]`, `y = keyanc k[1:]` -/
theorem keyanc_getElem_zero_tail {k : List α} (h : 1 ≤ k.length) :
    keyanc isanc ancidx k
      = (if lanc isanc ancidx (k[0]'h) ≥ keyanc isanc ancidx k.tail then lanc isanc ancidx (k[0]'h)
         else keyanc isanc ancidx k.tail) := by
  rw [ite_ge_eq_max]
  cases k with
  | nil => simp at h
  | cons a l => rfl

theorem keyanc_tail_le (k : List α) : keyanc isanc ancidx k.tail ≤ keyanc isanc ancidx k := by
  cases k with
  | nil => exact le_refl _
  | cons a l => rw [List.tail_cons, keyanc_cons]; exact le_max_right _ _

/-! ### characterisation : `keyanc k` is the least bound `n ≥ 0` of all contributions -/

theorem keyanc_le_iff (k : List α) (n : ℤ) :
    keyanc isanc ancidx k ≤ n ↔ 0 ≤ n ∧ ∀ l ∈ k, lanc isanc ancidx l ≤ n := by
  induction k with
  | nil => simp [keyanc_nil]
  | cons a l ih =>
    rw [keyanc_cons, max_le_iff, ih, List.forall_mem_cons]
    tauto

theorem lanc_le_keyanc {k : List α} {l : α} (h : l ∈ k) :
    lanc isanc ancidx l ≤ keyanc isanc ancidx k :=
  ((keyanc_le_iff k _).mp (le_refl _)).2 l h

/-- the maximum is attained: a nonempty-ancilla key has a label realising `keyanc` -/
theorem keyanc_eq_zero_or_attained (k : List α) :
    keyanc isanc ancidx k = 0 ∨ ∃ l ∈ k, keyanc isanc ancidx k = lanc isanc ancidx l := by
  induction k with
  | nil => left; rfl
  | cons a l ih =>
    rw [keyanc_cons]
    rcases le_total (lanc isanc ancidx a) (keyanc isanc ancidx l) with h | h
    · rw [max_eq_right h]
      rcases ih with h0 | ⟨b, hb, hk⟩
      · left; exact h0
      · right; exact ⟨b, List.mem_cons_of_mem a hb, hk⟩
    · rw [max_eq_left h]
      right; exact ⟨a, List.mem_cons_self, rfl⟩

/-! ### 4. `keyanc` depends only on the set of members, monotonically -/

theorem keyanc_mono {a b : List α} (h : ∀ l ∈ a, l ∈ b) :
    keyanc isanc ancidx a ≤ keyanc isanc ancidx b :=
  (keyanc_le_iff a _).mpr ⟨keyanc_nonneg b, fun l hl => lanc_le_keyanc (h l hl)⟩

theorem keyanc_congr_mem {a b : List α} (h : ∀ l, l ∈ a ↔ l ∈ b) :
    keyanc isanc ancidx a = keyanc isanc ancidx b :=
  le_antisymm (keyanc_mono fun l hl => (h l).mp hl) (keyanc_mono fun l hl => (h l).mpr hl)

theorem keyanc_perm {a b : List α} (h : a.Perm b) :
    keyanc isanc ancidx a = keyanc isanc ancidx b :=
  keyanc_congr_mem fun _ => h.mem_iff

theorem keyanc_sublist {a b : List α} (h : a.Sublist b) :
    keyanc isanc ancidx a ≤ keyanc isanc ancidx b :=
  keyanc_mono fun _ hl => h.subset hl

theorem keyanc_filter_le (p : α → Bool) (k : List α) :
    keyanc isanc ancidx (k.filter p) ≤ keyanc isanc ancidx k :=
  keyanc_sublist List.filter_sublist

/-- member sets (`memset k = k.toFinset`): monotone under `⊆` -/
theorem keyanc_memset_mono [DecidableEq α] {a b : List α} (h : a.toFinset ⊆ b.toFinset) :
    keyanc isanc ancidx a ≤ keyanc isanc ancidx b :=
  keyanc_mono fun _ hl => List.mem_toFinset.mp (h (List.mem_toFinset.mpr hl))

/-- ... and a function of the member set -/
theorem keyanc_memset_congr [DecidableEq α] {a b : List α} (h : a.toFinset = b.toFinset) :
    keyanc isanc ancidx a = keyanc isanc ancidx b :=
  le_antisymm (keyanc_memset_mono h.subset) (keyanc_memset_mono h.symm.subset)

/-- `keyanc k` as a maximum over the member set -/
theorem keyanc_eq_sup_memset [DecidableEq α] (k : List α) :
    keyanc isanc ancidx k = k.toFinset.fold max 0 (lanc isanc ancidx) := by
  induction k with
  | nil => rfl
  | cons a l ih =>
    rw [keyanc_cons, List.toFinset_cons]
    by_cases ha : a ∈ l.toFinset
    · rw [Finset.insert_eq_of_mem ha, ← ih]
      exact max_eq_right (lanc_le_keyanc (List.mem_toFinset.mp ha))
    · rw [Finset.fold_insert ha, ih]

/-- `_anc_sq`, boolean canonical key (`sorted(set(k))`): equal -/
theorem keyanc_bsq [LinearOrder α] (k : List α) :
    keyanc isanc ancidx (bsq k) = keyanc isanc ancidx k :=
  keyanc_congr_mem fun _ => mem_bsq

/-- `_anc_sq`, spin canonical key (members of odd multiplicity): not larger -/
theorem keyanc_ssq_le [LinearOrder α] (k : List α) :
    keyanc isanc ancidx (ssq k) ≤ keyanc isanc ancidx k :=
  keyanc_mono (ssq_subset k)

/-- plain sorting `tuple(sorted(k))` -/
theorem keyanc_srt [LinearOrder α] (k : List α) :
    keyanc isanc ancidx (srt k) = keyanc isanc ancidx k :=
  keyanc_perm (srt_perm k)

theorem keyanc_dedup [DecidableEq α] (k : List α) :
    keyanc isanc ancidx k.dedup = keyanc isanc ancidx k :=
  keyanc_congr_mem fun _ => List.mem_dedup

/-! ### 5. membership : the meaning of `keyanc k ≤ n` -/

theorem ancidx_succ_le_keyanc {k : List α} {l : α} (hl : l ∈ k) (ha : isanc l) :
    ancidx l + 1 ≤ keyanc isanc ancidx k := by
  rw [← lanc_of_isanc (ancidx := ancidx) ha]; exact lanc_le_keyanc hl

theorem ancidx_lt_keyanc {k : List α} {l : α} (hl : l ∈ k) (ha : isanc l) :
    ancidx l < keyanc isanc ancidx k := by
  have := ancidx_succ_le_keyanc (ancidx := ancidx) hl ha; omega

/-- `keyanc k ≤ n` : every ancilla label of the key has a number below `n` -/
theorem ancidx_lt_of_keyanc_le {k : List α} {n : ℤ} (h : keyanc isanc ancidx k ≤ n) :
    ∀ l ∈ k, isanc l → ancidx l < n := by
  intro l hl ha
  have := ancidx_succ_le_keyanc (ancidx := ancidx) hl ha; omega

/-- ... and conversely, for a bound `n ≥ 0` (counters are `≥ 0`): this is the term of the fold `ancbelow@n` -/
theorem keyanc_le_iff_ancbelow (k : List α) {n : ℤ} (hn : 0 ≤ n) :
    keyanc isanc ancidx k ≤ n ↔ ∀ l ∈ k, isanc l → ancidx l < n := by
  constructor
  · exact ancidx_lt_of_keyanc_le
  · intro h
    refine (keyanc_le_iff k n).mpr ⟨hn, fun l hl => ?_⟩
    unfold lanc
    split_ifs with ha
    · have := h l hl ha; omega
    · exact hn

theorem keyanc_eq_zero_iff (k : List α) (hidx : ∀ l, isanc l → 0 ≤ ancidx l) :
    keyanc isanc ancidx k = 0 ↔ ∀ l ∈ k, ¬ isanc l := by
  rw [← (keyanc_nonneg k).ge_iff_eq', keyanc_le_iff_ancbelow k (le_refl 0)]
  constructor
  · intro h l hl ha
    have h1 := h l hl ha
    have h2 := hidx l ha
    omega
  · intro h l hl ha; exact absurd ha (h l hl)

/-! ### 6. the parametric fold `ancbelow@n` over a finite set of keys (the dict's domain) -/

/-- the all-fold `ancbelow@n` of a dict with key set `s` -/
def ancbelow (isanc : α → Prop) [DecidablePred isanc] (ancidx : α → ℤ) (s : Finset (List α))
    (n : ℤ) : Prop :=
  ∀ k ∈ s, keyanc isanc ancidx k ≤ n

/-- monotone in the bound: `below n ∧ n ≤ m → below m` (both implications added in `folds.fold`) -/
theorem ancbelow_mono {s : Finset (List α)} {n m : ℤ}
    (h : ancbelow isanc ancidx s n ∧ n ≤ m) : ancbelow isanc ancidx s m :=
  fun k hk => le_trans (h.1 k hk) h.2

/-- the same, unfolded -/
theorem keyanc_fold_mono {s : Finset (List α)} {n m : ℤ}
    (h : (∀ k ∈ s, keyanc isanc ancidx k ≤ n) ∧ n ≤ m) : ∀ k ∈ s, keyanc isanc ancidx k ≤ m :=
  ancbelow_mono h

/-- antitone in the key set (pop / a sub-dict) -/
theorem ancbelow_subset {s t : Finset (List α)} {n : ℤ} (hst : s ⊆ t)
    (h : ancbelow isanc ancidx t n) : ancbelow isanc ancidx s n :=
  fun k hk => h k (hst hk)

/-- storing a key: the all-fold step (an instance of `dict_all_set` with `P k _ := keyanc k ≤ n`) -/
theorem ancbelow_insert [DecidableEq α] {s : Finset (List α)} {n : ℤ} (k : List α) :
    ancbelow isanc ancidx (insert k s) n ↔ keyanc isanc ancidx k ≤ n ∧ ancbelow isanc ancidx s n := by
  unfold ancbelow
  rw [Finset.forall_mem_insert]

theorem ancbelow_empty (n : ℤ) : ancbelow isanc ancidx (∅ : Finset (List α)) n :=
  fun _ hk => absurd hk (Finset.notMem_empty _)

/-- a nonempty dict below `n` forces `n ≥ 0` -/
theorem ancbelow_nonneg {s : Finset (List α)} {n : ℤ} {k : List α} (hk : k ∈ s)
    (h : ancbelow isanc ancidx s n) : 0 ≤ n :=
  le_trans (keyanc_nonneg k) (h k hk)

/-- meaning of the fold: no key of the dict mentions an ancilla label with number `≥ n` -/
theorem ancbelow_iff {s : Finset (List α)} {n : ℤ} (hn : 0 ≤ n) :
    ancbelow isanc ancidx s n ↔ ∀ k ∈ s, ∀ l ∈ k, isanc l → ancidx l < n := by
  unfold ancbelow
  exact forall₂_congr fun k _ => keyanc_le_iff_ancbelow k hn

/-! ### 7. the naming `anc n = '__a%d' % n` : `isanc (anc n)`, `ancidx (anc n) = n` (`Facts.anc_label`) -/

/-- `anc_label` : distinct numbers give distinct labels (a consequence of `ancidx ∘ anc = id`) -/
theorem anc_injective {anc : ℕ → α} (hidx : ∀ n, ancidx (anc n) = (n : ℤ)) :
    Function.Injective anc := by
  intro m n h
  have := congrArg ancidx h
  rw [hidx, hidx] at this
  exact_mod_cast this

/-- the fact `(anc m == anc n) == (m == n)` of `anc_label` -/
theorem anc_eq_iff {anc : ℕ → α} (hidx : ∀ n, ancidx (anc n) = (n : ℤ)) (m n : ℕ) :
    anc m = anc n ↔ m = n :=
  (anc_injective hidx).eq_iff

theorem lanc_anc {anc : ℕ → α} (hanc : ∀ n, isanc (anc n)) (hidx : ∀ n, ancidx (anc n) = (n : ℤ))
    (n : ℕ) : lanc isanc ancidx (anc n) = (n : ℤ) + 1 := by
  rw [lanc_of_isanc (hanc n), hidx]

theorem keyanc_unit_anc {anc : ℕ → α} (hanc : ∀ n, isanc (anc n))
    (hidx : ∀ n, ancidx (anc n) = (n : ℤ)) (n : ℕ) :
    keyanc isanc ancidx [anc n] = (n : ℤ) + 1 := by
  rw [keyanc_singleton, lanc_anc hanc hidx]
  rw [lanc_anc hanc hidx]; omega

/-- freshness: a key bounded by `n` does not contain the ancilla drawn from any counter `m ≥ n` -/
theorem anc_notMem_of_keyanc_le {anc : ℕ → α} (hanc : ∀ n, isanc (anc n))
    (hidx : ∀ n, ancidx (anc n) = (n : ℤ)) {k : List α} {n : ℤ}
    (h : keyanc isanc ancidx k ≤ n) {m : ℕ} (hm : n ≤ (m : ℤ)) : anc m ∉ k := by
  intro hmem
  have h1 := ancidx_lt_of_keyanc_le h (anc m) hmem (hanc m)
  rw [hidx] at h1
  omega

/-- ... with a natural-number bound -/
theorem anc_notMem_of_keyanc_le_nat {anc : ℕ → α} (hanc : ∀ n, isanc (anc n))
    (hidx : ∀ n, ancidx (anc n) = (n : ℤ)) {k : List α} {n m : ℕ}
    (h : keyanc isanc ancidx k ≤ (n : ℤ)) (hm : n ≤ m) : anc m ∉ k :=
  anc_notMem_of_keyanc_le hanc hidx h (by exact_mod_cast hm)

/-- ... for every stored key of a dict below `n` -/
theorem anc_fresh_of_ancbelow {anc : ℕ → α} (hanc : ∀ n, isanc (anc n))
    (hidx : ∀ n, ancidx (anc n) = (n : ℤ)) {s : Finset (List α)} {n : ℤ}
    (h : ancbelow isanc ancidx s n) {m : ℕ} (hm : n ≤ (m : ℤ)) : ∀ k ∈ s, anc m ∉ k :=
  fun k hk => anc_notMem_of_keyanc_le hanc hidx (h k hk) hm

/-- The verifier's `anc : Int → Label` (`anc_label` is applied to `Int` terms).  The two facts are only
needed at the numbers actually used, and `m ≥ n ≥ keyanc k ≥ 0` holds automatically. -/
theorem ancZ_notMem_of_keyanc_le {anc : ℤ → α} {k : List α} {n m : ℤ}
    (h : keyanc isanc ancidx k ≤ n) (hm : n ≤ m)
    (hanc : isanc (anc m)) (hidx : ancidx (anc m) = m) : anc m ∉ k := by
  intro hmem
  have h1 := ancidx_lt_of_keyanc_le h (anc m) hmem hanc
  rw [hidx] at h1
  omega

theorem ancZ_eq_iff {anc : ℤ → α} {m n : ℤ} (hm : ancidx (anc m) = m) (hn : ancidx (anc n) = n) :
    anc m = anc n ↔ m = n := by
  constructor
  · intro h
    have := congrArg ancidx h
    rwa [hm, hn] at this
  · intro h; rw [h]

/-- drawing the ancilla `anc m` from the counter `m ≥ n` and advancing the counter keeps the bound:
`keyanc k ≤ n ≤ m → keyanc (k ++ [anc m]) ≤ m + 1` -/
theorem keyanc_append_anc_le {anc : ℕ → α} (hanc : ∀ n, isanc (anc n))
    (hidx : ∀ n, ancidx (anc n) = (n : ℤ)) {k : List α} {n : ℤ} {m : ℕ}
    (h : keyanc isanc ancidx k ≤ n) (hm : n ≤ (m : ℤ)) :
    keyanc isanc ancidx (k ++ [anc m]) ≤ (m : ℤ) + 1 := by
  rw [keyanc_append, keyanc_unit_anc hanc hidx, max_le_iff]
  constructor <;> omega

/-! ### the intended model : ancilla numbers are natural numbers -/

/-- with `ancidx = (↑) ∘ idx`, `idx : α → ℕ`, the unit-key fact of `Facts.unit` is unconditional -/
theorem keyanc_singleton_nat (idx : α → ℕ) (a : α) :
    keyanc isanc (fun l => (idx l : ℤ)) [a] = lanc isanc (fun l => (idx l : ℤ)) a :=
  keyanc_singleton (lanc_nonneg fun _ => by omega)

/-- ... and so is the two-label fact of `_anc_key` -/
theorem keyanc_pair_nat (idx : α → ℕ) (a b : α) :
    keyanc isanc (fun l => (idx l : ℤ)) [a, b]
      = max (lanc isanc (fun l => (idx l : ℤ)) a) (lanc isanc (fun l => (idx l : ℤ)) b) :=
  keyanc_pair (Or.inl (lanc_nonneg fun _ => by omega))

end L14

/-! ## L15-penalty-composition (property C08) : a penalised model `f + ∑ i, F i` and its constrained optimum

These are lemmas **over contracts**: the hypotheses `H1`–`H3` are the *post-conditions* of
`PCBO/PCSO.add_constraint_*` (C02/C03: the penalty is `≥ 0`, it is `≥ lam` when the relation is violated, and
`= 0` is attained by some setting of the constraint's ancillas when the relation holds — the attainment being
L6/L7-slack), `H4` is the contract of the weight (`lam` larger than the spread of the objective) and `H5` is
feasibility.  Nothing here is a fact about code.

* `X` : assignments of the model variables, `A` : assignments of the ancillas, `ι` : the (finitely many) constraints;
* `f : X → ℝ` the objective, `holds i x` the `i`-th relation, `lam i` its weight, `F i x a` its penalty
  (already multiplied by the weight);
* `penM f F x a := f x + ∑ i, F i x a` the value of the penalised model.

No finiteness of `X` or `A` is needed for (a)–(c); finiteness of `X` is only used to show that minimisers exist. -/

section L15
variable {X A ι : Type*} [Fintype ι]

/-- value of the penalised model: objective plus all penalties -/
def penM (f : X → ℝ) (F : ι → X → A → ℝ) (x : X) (a : A) : ℝ := f x + ∑ i, F i x a

variable {f : X → ℝ} {holds : ι → X → Prop} {lam : ι → ℝ} {F : ι → X → A → ℝ}

theorem penM_def (f : X → ℝ) (F : ι → X → A → ℝ) (x : X) (a : A) :
    penM f F x a = f x + ∑ i, F i x a := rfl

/-- H1 ⟹ the penalised model never undercuts the objective. -/
theorem penM_ge_obj (H1 : ∀ i x a, 0 ≤ F i x a) (x : X) (a : A) : f x ≤ penM f F x a := by
  have : 0 ≤ ∑ i, F i x a := Finset.sum_nonneg fun i _ => H1 i x a
  unfold penM; linarith

/-- H1, H2 ⟹ a violated constraint costs at least its weight. -/
theorem penM_ge_obj_add_lam (H1 : ∀ i x a, 0 ≤ F i x a) (H2 : ∀ i x a, ¬ holds i x → lam i ≤ F i x a)
    {i : ι} {x : X} (hv : ¬ holds i x) (a : A) : f x + lam i ≤ penM f F x a := by
  have h1 : F i x a ≤ ∑ j, F j x a :=
    Finset.single_le_sum (f := fun j => F j x a) (fun j _ => H1 j x a) (Finset.mem_univ i)
  have h2 := H2 i x a hv
  unfold penM; linarith

/-- all penalties vanish ⟹ the penalised model equals the objective. -/
theorem penM_eq_obj_of_attained {x : X} {a : A} (h : ∀ i, F i x a = 0) : penM f F x a = f x := by
  simp [penM, h]

omit [Fintype ι] in
/-- H4 (at `x = y`) already contains `lam i > 0`. -/
theorem lam_pos_of_gap [Nonempty X] (H4 : ∀ i x y, f x - f y < lam i) (i : ι) : 0 < lam i := by
  obtain ⟨x⟩ := ‹Nonempty X›
  simpa using H4 i x x

/-- **(a), feasibility**: a minimiser of the penalised model satisfies every constraint.
Only the part of H4 that compares a *feasible* `y` with an arbitrary `x` is used. -/
theorem penM_minimiser_feasible
    (H1 : ∀ i x a, 0 ≤ F i x a) (H2 : ∀ i x a, ¬ holds i x → lam i ≤ F i x a)
    (H3 : ∀ x, (∀ i, holds i x) → ∃ a, ∀ i, F i x a = 0)
    (H4 : ∀ i x y, (∀ j, holds j y) → f y - f x < lam i)
    (H5 : ∃ x, ∀ i, holds i x)
    {xs : X} {as : A} (hmin : ∀ y b, penM f F xs as ≤ penM f F y b) : ∀ i, holds i xs := by
  intro i
  by_contra hv
  obtain ⟨y, hy⟩ := H5
  obtain ⟨b, hb⟩ := H3 y hy
  have h1 := penM_ge_obj_add_lam (f := f) H1 H2 hv as
  have h2 := hmin y b
  rw [penM_eq_obj_of_attained hb] at h2
  have h3 := H4 i xs y hy
  linarith

/-- **(a), value**: at a minimiser the penalised model equals the objective (all penalties vanish in sum). -/
theorem penM_minimiser_value
    (H1 : ∀ i x a, 0 ≤ F i x a)
    (H3 : ∀ x, (∀ i, holds i x) → ∃ a, ∀ i, F i x a = 0)
    {xs : X} {as : A} (hmin : ∀ y b, penM f F xs as ≤ penM f F y b) (hfeas : ∀ i, holds i xs) :
    penM f F xs as = f xs := by
  obtain ⟨b, hb⟩ := H3 xs hfeas
  have h1 := hmin xs b
  rw [penM_eq_obj_of_attained hb] at h1
  exact le_antisymm h1 (penM_ge_obj H1 xs as)

/-- at a feasible minimiser every single penalty vanishes. -/
theorem penM_minimiser_penalties_zero
    (H1 : ∀ i x a, 0 ≤ F i x a)
    (H3 : ∀ x, (∀ i, holds i x) → ∃ a, ∀ i, F i x a = 0)
    {xs : X} {as : A} (hmin : ∀ y b, penM f F xs as ≤ penM f F y b) (hfeas : ∀ i, holds i xs) :
    ∀ i, F i xs as = 0 := by
  have hv := penM_minimiser_value H1 H3 hmin hfeas
  have hs : ∑ i, F i xs as = 0 := by unfold penM at hv; linarith
  intro i
  exact (Finset.sum_eq_zero_iff_of_nonneg fun j _ => H1 j xs as).1 hs i (Finset.mem_univ i)

/-- **(a), optimality**: a feasible minimiser of the penalised model is `f`-optimal among the feasible points. -/
theorem penM_minimiser_optimal
    (H1 : ∀ i x a, 0 ≤ F i x a)
    (H3 : ∀ x, (∀ i, holds i x) → ∃ a, ∀ i, F i x a = 0)
    {xs : X} {as : A} (hmin : ∀ y b, penM f F xs as ≤ penM f F y b) :
    ∀ y, (∀ i, holds i y) → f xs ≤ f y := by
  intro y hy
  obtain ⟨b, hb⟩ := H3 y hy
  have h2 := hmin y b
  rw [penM_eq_obj_of_attained hb] at h2
  exact (penM_ge_obj H1 xs as).trans h2

/-- **(a)** in one statement: a minimiser `(x*, a*)` of `M = f + ∑ F i` is feasible, `f`-optimal among the
feasible assignments, `M x* a* = f x*`, and this value is the least element of `f '' {feasible}`. -/
theorem penM_minimiser_spec
    (H1 : ∀ i x a, 0 ≤ F i x a) (H2 : ∀ i x a, ¬ holds i x → lam i ≤ F i x a)
    (H3 : ∀ x, (∀ i, holds i x) → ∃ a, ∀ i, F i x a = 0)
    (H4 : ∀ i x y, f x - f y < lam i)
    (H5 : ∃ x, ∀ i, holds i x)
    {xs : X} {as : A} (hmin : ∀ y b, penM f F xs as ≤ penM f F y b) :
    (∀ i, holds i xs) ∧ (∀ y, (∀ i, holds i y) → f xs ≤ f y) ∧ penM f F xs as = f xs
      ∧ IsLeast (f '' {y | ∀ i, holds i y}) (penM f F xs as) := by
  have hfeas := penM_minimiser_feasible H1 H2 H3 (fun i x y _ => H4 i y x) H5 hmin
  have hopt := penM_minimiser_optimal H1 H3 hmin
  have hval := penM_minimiser_value H1 H3 hmin hfeas
  refine ⟨hfeas, hopt, hval, ?_, ?_⟩
  · exact ⟨xs, hfeas, hval.symm⟩
  · rintro _ ⟨y, hy, rfl⟩
    rw [hval]; exact hopt y hy

/-- lower bound used for (b): under H1, H2 and the **non-strict** weight condition, every value of the
penalised model is at least the objective at any feasible `f`-optimal point. -/
theorem penM_ge_of_feasible_optimal
    (H1 : ∀ i x a, 0 ≤ F i x a) (H2 : ∀ i x a, ¬ holds i x → lam i ≤ F i x a)
    (H4 : ∀ i x y, (∀ j, holds j y) → f y - f x ≤ lam i)
    {x : X} (hx : ∀ i, holds i x) (hopt : ∀ y, (∀ i, holds i y) → f x ≤ f y) (y : X) (b : A) :
    f x ≤ penM f F y b := by
  by_cases hy : ∀ i, holds i y
  · exact (hopt y hy).trans (penM_ge_obj H1 y b)
  · obtain ⟨i, hi⟩ := not_forall.1 hy
    have h1 := penM_ge_obj_add_lam (f := f) H1 H2 hi b
    have h2 := H4 i y x hx
    linarith

/-- **(b)**: every feasible `f`-optimal `x`, together with ancillas `a` at which all penalties vanish
(they exist by H3), minimises the penalised model.  The non-strict weight condition suffices. -/
theorem penM_minimiser_of_feasible_optimal
    (H1 : ∀ i x a, 0 ≤ F i x a) (H2 : ∀ i x a, ¬ holds i x → lam i ≤ F i x a)
    (H4 : ∀ i x y, (∀ j, holds j y) → f y - f x ≤ lam i)
    {x : X} {a : A} (hx : ∀ i, holds i x) (hopt : ∀ y, (∀ i, holds i y) → f x ≤ f y)
    (ha : ∀ i, F i x a = 0) : ∀ y b, penM f F x a ≤ penM f F y b := by
  intro y b
  rw [penM_eq_obj_of_attained ha]
  exact penM_ge_of_feasible_optimal H1 H2 H4 hx hopt y b

/-- (b), existential form with H3 and the strict H4 exactly as in (a). -/
theorem penM_exists_minimiser_of_feasible_optimal
    (H1 : ∀ i x a, 0 ≤ F i x a) (H2 : ∀ i x a, ¬ holds i x → lam i ≤ F i x a)
    (H3 : ∀ x, (∀ i, holds i x) → ∃ a, ∀ i, F i x a = 0)
    (H4 : ∀ i x y, f x - f y < lam i)
    {x : X} (hx : ∀ i, holds i x) (hopt : ∀ y, (∀ i, holds i y) → f x ≤ f y) :
    ∃ a, (∀ i, F i x a = 0) ∧ penM f F x a = f x ∧ ∀ y b, penM f F x a ≤ penM f F y b := by
  obtain ⟨a, ha⟩ := H3 x hx
  exact ⟨a, ha, penM_eq_obj_of_attained ha,
    penM_minimiser_of_feasible_optimal H1 H2 (fun i x y _ => (H4 i y x).le) hx hopt ha⟩

/-- **(c)**: `v` is the minimum value of the penalised model iff it is the constrained optimum of `f`. -/
theorem penM_isLeast_iff
    (H1 : ∀ i x a, 0 ≤ F i x a) (H2 : ∀ i x a, ¬ holds i x → lam i ≤ F i x a)
    (H3 : ∀ x, (∀ i, holds i x) → ∃ a, ∀ i, F i x a = 0)
    (H4 : ∀ i x y, f x - f y < lam i)
    (H5 : ∃ x, ∀ i, holds i x) (v : ℝ) :
    IsLeast (Set.range fun p : X × A => penM f F p.1 p.2) v ↔ IsLeast (f '' {y | ∀ i, holds i y}) v := by
  constructor
  · rintro ⟨⟨⟨xs, as⟩, rfl⟩, hlb⟩
    have hmin : ∀ y b, penM f F xs as ≤ penM f F y b := fun y b => hlb ⟨(y, b), rfl⟩
    exact (penM_minimiser_spec H1 H2 H3 H4 H5 hmin).2.2.2
  · rintro ⟨⟨x, hx, rfl⟩, hlb⟩
    have hopt : ∀ y, (∀ i, holds i y) → f x ≤ f y := fun y hy => hlb ⟨y, hy, rfl⟩
    obtain ⟨a, -, hval, hmin⟩ := penM_exists_minimiser_of_feasible_optimal H1 H2 H3 H4 hx hopt
    refine ⟨⟨(x, a), hval⟩, ?_⟩
    rintro _ ⟨⟨y, b⟩, rfl⟩
    rw [← hval]; exact hmin y b

/-- (c), weak form: with the **non-strict** weight condition `sup f − inf f ≤ lam i` the minimum *value* is still
the constrained optimum (but minimisers of the penalised model need not be feasible any more). -/
theorem penM_isLeast_of_le
    (H1 : ∀ i x a, 0 ≤ F i x a) (H2 : ∀ i x a, ¬ holds i x → lam i ≤ F i x a)
    (H3 : ∀ x, (∀ i, holds i x) → ∃ a, ∀ i, F i x a = 0)
    (H4 : ∀ i x y, f x - f y ≤ lam i) {v : ℝ}
    (hv : IsLeast (f '' {y | ∀ i, holds i y}) v) :
    IsLeast (Set.range fun p : X × A => penM f F p.1 p.2) v := by
  obtain ⟨⟨x, hx, rfl⟩, hlb⟩ := hv
  have hopt : ∀ y, (∀ i, holds i y) → f x ≤ f y := fun y hy => hlb ⟨y, hy, rfl⟩
  obtain ⟨a, ha⟩ := H3 x hx
  refine ⟨⟨(x, a), penM_eq_obj_of_attained ha⟩, ?_⟩
  rintro _ ⟨⟨y, b⟩, rfl⟩
  exact penM_ge_of_feasible_optimal H1 H2 (fun i x y _ => H4 i y x) hx hopt y b

omit [Fintype ι] in
/-- finitely many assignments and feasibility ⟹ a feasible `f`-optimal assignment exists. -/
theorem exists_feasible_optimal [Finite X] (f : X → ℝ) (H5 : ∃ x, ∀ i, holds i x) :
    ∃ x, (∀ i, holds i x) ∧ ∀ y, (∀ i, holds i y) → f x ≤ f y := by
  obtain ⟨x, hx, hmin⟩ := Set.exists_min_image {y | ∀ i, holds i y} f (Set.toFinite _) H5
  exact ⟨x, hx, hmin⟩

/-- minimisers of the penalised model exist (only `X` has to be finite: the ancillas come from H3). -/
theorem penM_exists_minimiser [Finite X]
    (H1 : ∀ i x a, 0 ≤ F i x a) (H2 : ∀ i x a, ¬ holds i x → lam i ≤ F i x a)
    (H3 : ∀ x, (∀ i, holds i x) → ∃ a, ∀ i, F i x a = 0)
    (H4 : ∀ i x y, f x - f y < lam i)
    (H5 : ∃ x, ∀ i, holds i x) :
    ∃ xs as, (∀ y b, penM f F xs as ≤ penM f F y b) ∧ (∀ i, holds i xs)
      ∧ (∀ y, (∀ i, holds i y) → f xs ≤ f y) ∧ penM f F xs as = f xs := by
  obtain ⟨x, hx, hopt⟩ := exists_feasible_optimal f H5
  obtain ⟨a, -, hval, hmin⟩ := penM_exists_minimiser_of_feasible_optimal H1 H2 H3 H4 hx hopt
  exact ⟨x, a, hmin, hx, hopt, hval⟩

/-- **(c)**, minimiser form: the value at any minimiser of the penalised model equals the objective at any
feasible `f`-optimal assignment. -/
theorem penM_min_eq_constrained_opt
    (H1 : ∀ i x a, 0 ≤ F i x a) (H2 : ∀ i x a, ¬ holds i x → lam i ≤ F i x a)
    (H3 : ∀ x, (∀ i, holds i x) → ∃ a, ∀ i, F i x a = 0)
    (H4 : ∀ i x y, f x - f y < lam i)
    (H5 : ∃ x, ∀ i, holds i x)
    {xs : X} {as : A} (hmin : ∀ y b, penM f F xs as ≤ penM f F y b)
    {x : X} (hx : ∀ i, holds i x) (hopt : ∀ y, (∀ i, holds i y) → f x ≤ f y) :
    penM f F xs as = f x := by
  obtain ⟨hf, ho, hv, -⟩ := penM_minimiser_spec H1 H2 H3 H4 H5 hmin
  rw [hv]
  exact le_antisymm (ho x hx) (hopt xs hf)

end L15

/-! ### L15, single constraint -/

section L15single
variable {X A : Type*} {f : X → ℝ} {holds : X → Prop} {lam : ℝ} {F : X → A → ℝ}

theorem penM_unit (f : X → ℝ) (F : X → A → ℝ) (x : X) (a : A) :
    penM (ι := Unit) f (fun _ => F) x a = f x + F x a := by
  simp [penM]

/-- **(a)** for one constraint: a minimiser of `f x + F x a` satisfies the relation, is `f`-optimal among the
assignments satisfying it, and the two values agree. -/
theorem pen1_minimiser_spec
    (H1 : ∀ x a, 0 ≤ F x a) (H2 : ∀ x a, ¬ holds x → lam ≤ F x a)
    (H3 : ∀ x, holds x → ∃ a, F x a = 0)
    (H4 : ∀ x y, f x - f y < lam)
    (H5 : ∃ x, holds x)
    {xs : X} {as : A} (hmin : ∀ y b, f xs + F xs as ≤ f y + F y b) :
    holds xs ∧ (∀ y, holds y → f xs ≤ f y) ∧ f xs + F xs as = f xs ∧ F xs as = 0
      ∧ IsLeast (f '' {y | holds y}) (f xs + F xs as) := by
  have h := penM_minimiser_spec (ι := Unit) (f := f) (holds := fun _ => holds) (lam := fun _ => lam)
    (F := fun _ => F) (fun _ => H1) (fun _ => H2)
    (fun x hx => (H3 x (hx ())).imp fun a ha _ => ha) (fun _ => H4)
    (H5.imp fun x hx _ => hx) (xs := xs) (as := as) (by simpa only [penM_unit] using hmin)
  simp only [penM_unit, forall_const] at h
  obtain ⟨h1, h2, h3, h4⟩ := h
  exact ⟨h1, h2, h3, by linarith, h4⟩

/-- **(b)** for one constraint. -/
theorem pen1_minimiser_of_feasible_optimal
    (H1 : ∀ x a, 0 ≤ F x a) (H2 : ∀ x a, ¬ holds x → lam ≤ F x a)
    (H4 : ∀ x y, f x - f y ≤ lam)
    {x : X} {a : A} (hx : holds x) (hopt : ∀ y, holds y → f x ≤ f y) (ha : F x a = 0) :
    ∀ y b, f x + F x a ≤ f y + F y b := by
  have h := penM_minimiser_of_feasible_optimal (ι := Unit) (f := f) (holds := fun _ => holds)
    (lam := fun _ => lam) (F := fun _ => F) (fun _ => H1) (fun _ => H2) (fun _ x y _ => H4 y x)
    (x := x) (a := a) (fun _ => hx) (fun y hy => hopt y (hy ())) (fun _ => ha)
  simpa only [penM_unit] using h

/-- **(c)** for one constraint. -/
theorem pen1_isLeast_iff
    (H1 : ∀ x a, 0 ≤ F x a) (H2 : ∀ x a, ¬ holds x → lam ≤ F x a)
    (H3 : ∀ x, holds x → ∃ a, F x a = 0)
    (H4 : ∀ x y, f x - f y < lam)
    (H5 : ∃ x, holds x) (v : ℝ) :
    IsLeast (Set.range fun p : X × A => f p.1 + F p.1 p.2) v ↔ IsLeast (f '' {y | holds y}) v := by
  have h := penM_isLeast_iff (ι := Unit) (f := f) (holds := fun _ => holds) (lam := fun _ => lam)
    (F := fun _ => F) (fun _ => H1) (fun _ => H2)
    (fun x hx => (H3 x (hx ())).imp fun a ha _ => ha) (fun _ => H4)
    (H5.imp fun x hx _ => hx) v
  simpa only [penM_unit, forall_const] using h

end L15single

/-! ### L15, per-constraint attainment with disjoint ancilla blocks -/

section L15blocks
variable {X ι : Type*}

/-- ancillas as a product of blocks `A = ∀ i, B i`, the `i`-th penalty reading only its own block:
per-constraint attainment gives joint attainment (H3). -/
theorem joint_attainment_of_blocks {B : ι → Type*} {holds : ι → X → Prop} {G : ∀ i, X → B i → ℝ}
    (h : ∀ i x, holds i x → ∃ b : B i, G i x b = 0) :
    ∀ x, (∀ i, holds i x) → ∃ a : ∀ i, B i, ∀ i, G i x (a i) = 0 :=
  fun x hx => ⟨fun i => (h i x (hx i)).choose, fun i => (h i x (hx i)).choose_spec⟩

/-- the same with one shared ancilla space `A = L → V` (labels `L`, values `V`): the `i`-th penalty only reads the
labels in `blk i`, the blocks are pairwise disjoint; then per-constraint attainment gives joint attainment. -/
theorem joint_attainment_of_disjoint_support {L V : Type*} {holds : ι → X → Prop}
    {F : ι → X → (L → V) → ℝ} (blk : ι → Set L) (a₀ : L → V)
    (hdisj : ∀ i j l, l ∈ blk i → l ∈ blk j → i = j)
    (hloc : ∀ i x (a a' : L → V), (∀ l ∈ blk i, a l = a' l) → F i x a = F i x a')
    (h : ∀ i x, holds i x → ∃ a, F i x a = 0) :
    ∀ x, (∀ i, holds i x) → ∃ a, ∀ i, F i x a = 0 := by
  classical
  intro x hx
  let c : ι → (L → V) := fun i => (h i x (hx i)).choose
  have hc : ∀ i, F i x (c i) = 0 := fun i => (h i x (hx i)).choose_spec
  refine ⟨fun l => if hl : ∃ i, l ∈ blk i then c hl.choose l else a₀ l, fun i => ?_⟩
  rw [← hc i]
  apply hloc
  intro l hl
  have hex : ∃ j, l ∈ blk j := ⟨i, hl⟩
  have : hex.choose = i := hdisj _ _ l hex.choose_spec hl
  simp only [dif_pos hex, this]


/-- **(a)+(c)** with per-constraint attainment and product ancillas `A = ∀ i, B i` (`F i x a = G i x (a i)`). -/
theorem penM_blocks_minimiser_spec [Fintype ι] {B : ι → Type*} {f : X → ℝ} {holds : ι → X → Prop}
    {lam : ι → ℝ} {G : ∀ i, X → B i → ℝ}
    (H1 : ∀ i x b, 0 ≤ G i x b) (H2 : ∀ i x b, ¬ holds i x → lam i ≤ G i x b)
    (H3 : ∀ i x, holds i x → ∃ b : B i, G i x b = 0)
    (H4 : ∀ i x y, f x - f y < lam i)
    (H5 : ∃ x, ∀ i, holds i x)
    {xs : X} {as : ∀ i, B i}
    (hmin : ∀ y (b : ∀ i, B i), f xs + ∑ i, G i xs (as i) ≤ f y + ∑ i, G i y (b i)) :
    (∀ i, holds i xs) ∧ (∀ y, (∀ i, holds i y) → f xs ≤ f y) ∧ f xs + ∑ i, G i xs (as i) = f xs
      ∧ (∀ i, G i xs (as i) = 0)
      ∧ IsLeast (f '' {y | ∀ i, holds i y}) (f xs + ∑ i, G i xs (as i)) := by
  have H3' := joint_attainment_of_blocks H3
  have H1' : ∀ i x (a : ∀ i, B i), 0 ≤ G i x (a i) := fun i x a => H1 i x (a i)
  have H2' : ∀ i x (a : ∀ i, B i), ¬ holds i x → lam i ≤ G i x (a i) := fun i x a => H2 i x (a i)
  have hmin' : ∀ y (b : ∀ i, B i), penM f (fun i x (a : ∀ i, B i) => G i x (a i)) xs as
      ≤ penM f (fun i x (a : ∀ i, B i) => G i x (a i)) y b := hmin
  obtain ⟨h1, h2, h3, h4⟩ := penM_minimiser_spec H1' H2' H3' H4 H5 hmin'
  exact ⟨h1, h2, h3, penM_minimiser_penalties_zero H1' H3' hmin' h1, h4⟩

/-- **(b)** with product ancillas: a feasible `f`-optimal `x` with per-block attaining ancillas minimises the
penalised model. -/
theorem penM_blocks_minimiser_of_feasible_optimal [Fintype ι] {B : ι → Type*} {f : X → ℝ}
    {holds : ι → X → Prop} {lam : ι → ℝ} {G : ∀ i, X → B i → ℝ}
    (H1 : ∀ i x b, 0 ≤ G i x b) (H2 : ∀ i x b, ¬ holds i x → lam i ≤ G i x b)
    (H4 : ∀ i x y, f x - f y ≤ lam i)
    {x : X} {a : ∀ i, B i} (hx : ∀ i, holds i x) (hopt : ∀ y, (∀ i, holds i y) → f x ≤ f y)
    (ha : ∀ i, G i x (a i) = 0) :
    ∀ y (b : ∀ i, B i), f x + ∑ i, G i x (a i) ≤ f y + ∑ i, G i y (b i) :=
  penM_minimiser_of_feasible_optimal (F := fun i x (a : ∀ i, B i) => G i x (a i))
    (fun i x a => H1 i x (a i)) (fun i x a => H2 i x (a i)) (fun i x y _ => H4 i y x) hx hopt ha

/-- **(c)** with per-constraint attainment and product ancillas. -/
theorem penM_blocks_isLeast_iff [Fintype ι] {B : ι → Type*} {f : X → ℝ} {holds : ι → X → Prop}
    {lam : ι → ℝ} {G : ∀ i, X → B i → ℝ}
    (H1 : ∀ i x b, 0 ≤ G i x b) (H2 : ∀ i x b, ¬ holds i x → lam i ≤ G i x b)
    (H3 : ∀ i x, holds i x → ∃ b : B i, G i x b = 0)
    (H4 : ∀ i x y, f x - f y < lam i)
    (H5 : ∃ x, ∀ i, holds i x) (v : ℝ) :
    IsLeast (Set.range fun p : X × (∀ i, B i) => f p.1 + ∑ i, G i p.1 (p.2 i)) v
      ↔ IsLeast (f '' {y | ∀ i, holds i y}) v :=
  penM_isLeast_iff (F := fun i x (a : ∀ i, B i) => G i x (a i))
    (fun i x a => H1 i x (a i)) (fun i x a => H2 i x (a i)) (joint_attainment_of_blocks H3) H4 H5 v

end L15blocks

/-! ## L16-reduction-composition (property C01) : a model and its reduced (degree-reduced / converted) form

Lemmas **over contracts** again: `R1`, `R2` are what is established per reduction step (deductively where the
verifier reaches, otherwise by the bounded stand-in of C01); nothing here is a fact about code.

* `M : X → ℝ` the model, `D : S → ℝ` the reduced form (`S` = assignments of model variables *and* ancillas),
  `conv : S → X` the conversion (forget the ancillas / map the solution back);
* `R1 : ∀ s, M (conv s) ≤ D s` (the reduced form never undercuts), `R2 : ∀ x, ∃ s, conv s = x ∧ D s = M x`
  (every assignment has an exact extension). -/

section L16
variable {X S : Type*} {M : X → ℝ} {D : S → ℝ} {conv : S → X}

/-- a minimiser of the reduced form converts to a minimiser of the model, with the same value. -/
theorem red_minimiser_conv (R1 : ∀ s, M (conv s) ≤ D s) (R2 : ∀ x, ∃ s, conv s = x ∧ D s = M x)
    {s : S} (hmin : ∀ s', D s ≤ D s') : (∀ x, M (conv s) ≤ M x) ∧ D s = M (conv s) := by
  have hle : ∀ x, D s ≤ M x := fun x => by
    obtain ⟨s', -, hs'⟩ := R2 x
    exact hs' ▸ hmin s'
  exact ⟨fun x => (R1 s).trans (hle x), le_antisymm (hle _) (R1 s)⟩

/-- every minimiser of the model is the conversion of a minimiser of the reduced form, with the same value. -/
theorem red_minimiser_lift (R1 : ∀ s, M (conv s) ≤ D s) (R2 : ∀ x, ∃ s, conv s = x ∧ D s = M x)
    {x : X} (hmin : ∀ y, M x ≤ M y) : ∃ s, conv s = x ∧ D s = M x ∧ ∀ s', D s ≤ D s' := by
  obtain ⟨s, hs, hD⟩ := R2 x
  exact ⟨s, hs, hD, fun s' => hD ▸ (hmin (conv s')).trans (R1 s')⟩

/-- `min D = min M`. -/
theorem red_isLeast_iff (R1 : ∀ s, M (conv s) ≤ D s) (R2 : ∀ x, ∃ s, conv s = x ∧ D s = M x) (v : ℝ) :
    IsLeast (Set.range D) v ↔ IsLeast (Set.range M) v := by
  constructor
  · rintro ⟨⟨s, rfl⟩, hlb⟩
    obtain ⟨h1, h2⟩ := red_minimiser_conv R1 R2 (s := s) fun s' => hlb ⟨s', rfl⟩
    refine ⟨⟨conv s, h2.symm⟩, ?_⟩
    rintro _ ⟨x, rfl⟩
    rw [h2]; exact h1 x
  · rintro ⟨⟨x, rfl⟩, hlb⟩
    obtain ⟨s, -, hD, hmin⟩ := red_minimiser_lift R1 R2 (x := x) fun y => hlb ⟨y, rfl⟩
    refine ⟨⟨s, hD⟩, ?_⟩
    rintro _ ⟨s', rfl⟩
    rw [← hD]; exact hmin s'

/-- `min D = min M`, minimiser form. -/
theorem red_min_eq (R1 : ∀ s, M (conv s) ≤ D s) (R2 : ∀ x, ∃ s, conv s = x ∧ D s = M x)
    {s : S} (hs : ∀ s', D s ≤ D s') {x : X} (hx : ∀ y, M x ≤ M y) : D s = M x := by
  obtain ⟨h1, h2⟩ := red_minimiser_conv R1 R2 hs
  rw [h2]; exact le_antisymm (h1 x) (hx _)

/-- the set of minimisers of the model is exactly the image under `conv` of the set of minimisers of the reduced form. -/
theorem red_argmin_image (R1 : ∀ s, M (conv s) ≤ D s) (R2 : ∀ x, ∃ s, conv s = x ∧ D s = M x) :
    conv '' {s | ∀ s', D s ≤ D s'} = {x | ∀ y, M x ≤ M y} := by
  ext x
  constructor
  · rintro ⟨s, hs, rfl⟩
    exact (red_minimiser_conv R1 R2 hs).1
  · intro hx
    obtain ⟨s, hs, -, hmin⟩ := red_minimiser_lift R1 R2 hx
    exact ⟨s, hmin, hs⟩

/-- minimisers of the reduced form exist as soon as the *model* has finitely many assignments. -/
theorem red_exists_minimiser [Finite X] [Nonempty X] (R1 : ∀ s, M (conv s) ≤ D s)
    (R2 : ∀ x, ∃ s, conv s = x ∧ D s = M x) : ∃ s, ∀ s', D s ≤ D s' := by
  obtain ⟨x, hx⟩ := Finite.exists_min M
  obtain ⟨s, -, -, hmin⟩ := red_minimiser_lift R1 R2 hx
  exact ⟨s, hmin⟩

/-! ### reduction steps compose -/

/-- R1 for two successive steps `X ← S ← T`. -/
theorem red_R1_comp {T : Type*} {E : T → ℝ} {conv' : T → S}
    (R1 : ∀ s, M (conv s) ≤ D s) (R1' : ∀ t, D (conv' t) ≤ E t) :
    ∀ t, M ((conv ∘ conv') t) ≤ E t := fun t => (R1 (conv' t)).trans (R1' t)

/-- R2 for two successive steps `X ← S ← T`. -/
theorem red_R2_comp {T : Type*} {E : T → ℝ} {conv' : T → S}
    (R2 : ∀ x, ∃ s, conv s = x ∧ D s = M x) (R2' : ∀ s, ∃ t, conv' t = s ∧ E t = D s) :
    ∀ x, ∃ t, (conv ∘ conv') t = x ∧ E t = M x := by
  intro x
  obtain ⟨s, hs, hD⟩ := R2 x
  obtain ⟨t, ht, hE⟩ := R2' s
  exact ⟨t, by simp [ht, hs], hE.trans hD⟩

/-- the trivial step. -/
theorem red_R_id (M : X → ℝ) : (∀ x, M (id x) ≤ M x) ∧ ∀ x, ∃ s, id s = x ∧ M s = M x :=
  ⟨fun _ => le_rfl, fun x => ⟨x, rfl, rfl⟩⟩

/-- an affine change of the objective (`to_qubo` / `to_quso` style offsets and positive scalings) keeps R1, R2. -/
theorem red_R_affine (R1 : ∀ s, M (conv s) ≤ D s) (R2 : ∀ x, ∃ s, conv s = x ∧ D s = M x)
    {c : ℝ} (hc : 0 ≤ c) (d : ℝ) :
    (∀ s, c * M (conv s) + d ≤ c * D s + d) ∧ ∀ x, ∃ s, conv s = x ∧ c * D s + d = c * M x + d :=
  ⟨fun s => by have := mul_le_mul_of_nonneg_left (R1 s) hc; linarith,
   fun x => by obtain ⟨s, hs, hD⟩ := R2 x; exact ⟨s, hs, by rw [hD]⟩⟩

/-! ### L16 ∘ L15 : the reduced form of a penalised model -/

variable {A ι : Type*} [Fintype ι] {f : X → ℝ} {holds : ι → X → Prop} {lam : ι → ℝ}
  {F : ι → X → A → ℝ} {D' : S → ℝ} {conv' : S → X × A}

/-- if the model is itself `f + penalties` (L15) and `D'` is its reduced form (R1, R2), then every minimiser of the
reduced form converts to a feasible, `f`-optimal assignment, and the minimum of the reduced form is the
constrained optimum of `f`. -/
theorem red_penM_minimiser_spec
    (H1 : ∀ i x a, 0 ≤ F i x a) (H2 : ∀ i x a, ¬ holds i x → lam i ≤ F i x a)
    (H3 : ∀ x, (∀ i, holds i x) → ∃ a, ∀ i, F i x a = 0)
    (H4 : ∀ i x y, f x - f y < lam i)
    (H5 : ∃ x, ∀ i, holds i x)
    (R1 : ∀ s, penM f F (conv' s).1 (conv' s).2 ≤ D' s)
    (R2 : ∀ p : X × A, ∃ s, conv' s = p ∧ D' s = penM f F p.1 p.2)
    {s : S} (hmin : ∀ s', D' s ≤ D' s') :
    (∀ i, holds i (conv' s).1) ∧ (∀ y, (∀ i, holds i y) → f (conv' s).1 ≤ f y)
      ∧ D' s = f (conv' s).1 ∧ IsLeast (f '' {y | ∀ i, holds i y}) (D' s) := by
  obtain ⟨h1, h2⟩ := red_minimiser_conv (M := fun p : X × A => penM f F p.1 p.2) R1 R2 hmin
  obtain ⟨g1, g2, g3, g4⟩ := penM_minimiser_spec H1 H2 H3 H4 H5
    (xs := (conv' s).1) (as := (conv' s).2) fun y b => h1 (y, b)
  exact ⟨g1, g2, h2.trans g3, h2 ▸ g4⟩

/-- conversely every feasible `f`-optimal assignment is the conversion of a minimiser of the reduced form. -/
theorem red_penM_lift
    (H1 : ∀ i x a, 0 ≤ F i x a) (H2 : ∀ i x a, ¬ holds i x → lam i ≤ F i x a)
    (H3 : ∀ x, (∀ i, holds i x) → ∃ a, ∀ i, F i x a = 0)
    (H4 : ∀ i x y, f x - f y < lam i)
    (R1 : ∀ s, penM f F (conv' s).1 (conv' s).2 ≤ D' s)
    (R2 : ∀ p : X × A, ∃ s, conv' s = p ∧ D' s = penM f F p.1 p.2)
    {x : X} (hx : ∀ i, holds i x) (hopt : ∀ y, (∀ i, holds i y) → f x ≤ f y) :
    ∃ s, (conv' s).1 = x ∧ D' s = f x ∧ ∀ s', D' s ≤ D' s' := by
  obtain ⟨a, -, hval, hmin⟩ := penM_exists_minimiser_of_feasible_optimal H1 H2 H3 H4 hx hopt
  obtain ⟨s, hs, hD, hmin'⟩ := red_minimiser_lift (M := fun p : X × A => penM f F p.1 p.2) R1 R2
    (x := (x, a)) fun p => hmin p.1 p.2
  exact ⟨s, by rw [hs], hD.trans hval, hmin'⟩

/-- the minimum of the reduced form of a penalised model is the constrained optimum of `f`. -/
theorem red_penM_isLeast_iff
    (H1 : ∀ i x a, 0 ≤ F i x a) (H2 : ∀ i x a, ¬ holds i x → lam i ≤ F i x a)
    (H3 : ∀ x, (∀ i, holds i x) → ∃ a, ∀ i, F i x a = 0)
    (H4 : ∀ i x y, f x - f y < lam i)
    (H5 : ∃ x, ∀ i, holds i x)
    (R1 : ∀ s, penM f F (conv' s).1 (conv' s).2 ≤ D' s)
    (R2 : ∀ p : X × A, ∃ s, conv' s = p ∧ D' s = penM f F p.1 p.2) (v : ℝ) :
    IsLeast (Set.range D') v ↔ IsLeast (f '' {y | ∀ i, holds i y}) v :=
  (red_isLeast_iff (M := fun p : X × A => penM f F p.1 p.2) R1 R2 v).trans
    (penM_isLeast_iff H1 H2 H3 H4 H5 v)

/-- existence: finitely many model assignments and feasibility ⟹ the reduced form has a minimiser (and by
`red_penM_minimiser_spec` it converts to a feasible optimal assignment). -/
theorem red_penM_exists_minimiser [Finite X]
    (H1 : ∀ i x a, 0 ≤ F i x a) (H2 : ∀ i x a, ¬ holds i x → lam i ≤ F i x a)
    (H3 : ∀ x, (∀ i, holds i x) → ∃ a, ∀ i, F i x a = 0)
    (H4 : ∀ i x y, f x - f y < lam i)
    (H5 : ∃ x, ∀ i, holds i x)
    (R1 : ∀ s, penM f F (conv' s).1 (conv' s).2 ≤ D' s)
    (R2 : ∀ p : X × A, ∃ s, conv' s = p ∧ D' s = penM f F p.1 p.2) :
    ∃ s, ∀ s', D' s ≤ D' s' := by
  obtain ⟨x, hx, hopt⟩ := exists_feasible_optimal f H5
  obtain ⟨s, -, -, hmin⟩ := red_penM_lift H1 H2 H3 H4 R1 R2 hx hopt
  exact ⟨s, hmin⟩

end L16

/-! ## Sanity instantiations at `α := ℕ`, `R := ℝ` / `ℚ` -/

section Inst

example (x : ℕ → ℝ) (hx : ∀ i, x i = 0 ∨ x i = 1) (k : List ℕ) :
    mono x (bsq k) = mono x k := mono_bsq hx k

example (x : ℕ → ℝ) (hx : ∀ i, x i = 1 ∨ x i = -1) (k : List ℕ) :
    mono x (ssq k) = mono x k := mono_ssq hx k

example (x : ℕ → ℝ) (k : List ℕ) : mono x k ≠ 0 ↔ ∀ i ∈ k, x i ≠ 0 := mono_ne_zero_iff x k

noncomputable example (x : ℕ → ℝ) (hx : ∀ i, x i = 1 ∨ x i = -1) (k : List ℕ) :
    mono x k = 1 ↔ Even (k.countP (fun i => decide (x i = -1))) :=
  mono_spin_eq_one_iff (by norm_num) hx k

example (x : ℕ → ℝ) (hx : ∀ i, x i = 0 ∨ x i = 1) (k : List ℕ) :
    mono (zval x) (ssq k) = mono (zval x) k := mono_ssq (zval_spin hx) k

example (d : List ℕ →₀ ℚ) (k : List ℕ) (c : ℚ) (t : List ℕ → ℚ → ℚ) (ht : ∀ i, t i 0 = 0) :
    (d.update k c).sum t = d.sum t - t k (d k) + t k c := finsupp_sum_update d k c t ht

example : bsq [3, 1, 3, 2, 1] = [1, 2, 3] :=
  (bsq_unique (l := [1, 2, 3]) (by simp) (by simp) (by intro i; simp; tauto)).symm
example : ssq [1, 1] = ([] : List ℕ) :=
  (ssq_unique (l := []) (by simp) (by simp) (by
    intro i; simp only [List.not_mem_nil, false_iff, Nat.not_odd_iff_even]
    by_cases h : i = 1 <;> simp [List.count_cons, h])).symm

example (m : ℕ → ℕ) (a x : ℕ → ℝ) (k : List ℕ) (h : ∀ i ∈ k, x i = a (m i)) :
    mono a (srt (k.map m)) = mono x k := by
  rw [mono_srt, mono_relabel m a x k h]

example (x : ℕ → ℝ) (S : Finset ℕ) (k : List ℕ) :
    mono x k = mono x (k.filter (fun i => decide (i ∉ S)))
      * mono x (k.filter (fun i => decide (i ∈ S))) := mono_split x (· ∈ S) k

example : ∃ a : ℕ → Bool, slack true a 3 = 5 := slack_log_attained 3 5 (by norm_num)

example (x : ℕ → ℝ) (s : Finset (List ℕ)) (f : List ℕ → ℝ) (k₁ k₂ : List ℕ) (hcard : s.card = 2)
    (h₁ : k₁ ∈ s) (h₂ : k₂ ∈ s) (h : k₁ ≠ k₂) :
    dval x s f = f k₁ * mono x k₁ + f k₂ * mono x k₂ :=
  dict_sum_enum_two hcard h₁ h₂ h f (fun k v => v * mono x k)

example (x : ℕ → ℝ) (hx : ∀ i, x i = 0 ∨ x i = 1) (s : Finset (List ℕ)) (f : List ℕ → ℝ)
    (hc : ∀ k ∈ s, f k = 3) : ∃ m : ℕ, m ≤ s.card ∧ dval x s f = 3 * (m : ℝ) :=
  dval_const_count_exists hx s f 3 hc

example (x : ℕ → ℝ) (hx : ∀ i, x i = 0) (s : Finset (List ℕ)) (f : List ℕ → ℝ) :
    dval x s f = if [] ∈ s then f [] else 0 := dval_origin hx s f

example (a b : ℝ) (c : Prop) [Decidable c] (ha : IsInt a) (hb : IsInt b) :
    IsInt (if c then a * b - 2 else -a + 1) :=
  isInt_ite c (isInt_sub (isInt_mul ha hb) isInt_two) (isInt_add (isInt_neg ha) isInt_one)

/-! L14-keyanc: a model of the hypotheses exists (labels `ℕ ⊕ ℕ`: `inl` user labels, `inr n` the ancilla `n`),
so the fact set `isanc (anc n) ∧ ancidx (anc n) = n` is consistent and the freshness theorem is not vacuous. -/

example (k : List (ℕ ⊕ ℕ)) (n : ℤ) (m : ℕ)
    (h : keyanc (fun l : ℕ ⊕ ℕ => l.isRight = true) (Sum.elim (fun _ => 0) (fun j => (j : ℤ))) k ≤ n)
    (hm : n ≤ (m : ℤ)) : Sum.inr m ∉ k :=
  anc_notMem_of_keyanc_le (anc := Sum.inr) (fun _ => rfl) (fun _ => rfl) h hm

example : keyanc (fun l : ℕ ⊕ ℕ => l.isRight = true) (Sum.elim (fun _ => 0) (fun j => (j : ℤ)))
    [Sum.inl 7, Sum.inr 4, Sum.inr 1, Sum.inl 9] = 5 := by decide

example (a b : List ℕ) (isanc : ℕ → Prop) [DecidablePred isanc] (ancidx : ℕ → ℤ) :
    keyanc isanc ancidx (bsq (a ++ b)) = max (keyanc isanc ancidx a) (keyanc isanc ancidx b) := by
  rw [keyanc_bsq, keyanc_append]

/-! L15 / L16: the hypotheses are satisfiable (one boolean variable, one constraint `x = true` with penalty `2·(1 - x)`,
objective `f x = x`, no ancillas), so the composition theorems are not vacuous. -/

example {xs : Bool} {as : Unit}
    (hmin : ∀ (y : Bool) (_ : Unit), (if xs then (1 : ℝ) else 0) + (if xs then 0 else 2)
      ≤ (if y then (1 : ℝ) else 0) + (if y then 0 else 2)) : xs = true :=
  (pen1_minimiser_spec (f := fun x : Bool => if x then (1 : ℝ) else 0) (holds := fun x => x = true)
    (lam := 2) (F := fun x (_ : Unit) => if x then (0 : ℝ) else 2)
    (by rintro (_ | _) _ <;> norm_num) (by rintro (_ | _) _ <;> simp)
    (by rintro (_ | _) h <;> simp at h ⊢) (by rintro (_ | _) (_ | _) <;> norm_num)
    ⟨true, rfl⟩ (xs := xs) (as := as) hmin).1

example {X S : Type*} (M : X → ℝ) (D : S → ℝ) (conv : S → X) (R1 : ∀ s, M (conv s) ≤ D s)
    (R2 : ∀ x, ∃ s, conv s = x ∧ D s = M x) (s : S) (hs : ∀ s', D s ≤ D s') (x : X) :
    M (conv s) ≤ M x := (red_minimiser_conv R1 R2 hs).1 x

end Inst

end Qvc

/-! ## Axiom audit -/

#print axioms Qvc.mono_nil
#print axioms Qvc.mono_singleton
#print axioms Qvc.mono_cons
#print axioms Qvc.mono_append
#print axioms Qvc.mono_perm
#print axioms Qvc.mono_bool_range
#print axioms Qvc.mono_spin_range
#print axioms Qvc.mono_ne_zero_iff
#print axioms Qvc.mono_eq_zero_iff
#print axioms Qvc.mono_bool_eq_one_iff
#print axioms Qvc.mono_spin_negcount
#print axioms Qvc.mono_spin_eq_one_iff
#print axioms Qvc.mono_eq_prod_count
#print axioms Qvc.bool_pow_pos
#print axioms Qvc.mono_bool_eq_prod_toFinset
#print axioms Qvc.mono_bool_same_members
#print axioms Qvc.spin_sq
#print axioms Qvc.spin_pow
#print axioms Qvc.mono_spin_eq_prod_odd
#print axioms Qvc.mono_spin_parity
#print axioms Qvc.leb_iff
#print axioms Qvc.leb_trans
#print axioms Qvc.leb_total
#print axioms Qvc.pairwise_sort
#print axioms Qvc.sort_eq_self
#print axioms Qvc.sorted_nodup_unique
#print axioms Qvc.bsq_perm
#print axioms Qvc.mem_bsq
#print axioms Qvc.bsq_subset
#print axioms Qvc.bsq_nodup
#print axioms Qvc.bsq_sorted
#print axioms Qvc.bsq_sorted_lt
#print axioms Qvc.bsq_length_le
#print axioms Qvc.bsq_of_sorted_nodup
#print axioms Qvc.bsq_idem
#print axioms Qvc.bsq_of_length_le_one
#print axioms Qvc.bsq_unique
#print axioms Qvc.bsq_eq_iff
#print axioms Qvc.ssq_perm
#print axioms Qvc.mem_ssq
#print axioms Qvc.ssq_subset
#print axioms Qvc.ssq_nodup
#print axioms Qvc.ssq_sorted
#print axioms Qvc.ssq_sorted_lt
#print axioms Qvc.ssq_length_le
#print axioms Qvc.ssq_of_sorted_nodup
#print axioms Qvc.ssq_idem
#print axioms Qvc.ssq_of_length_le_one
#print axioms Qvc.ssq_unique
#print axioms Qvc.ssq_eq_iff
#print axioms Qvc.mono_bsq
#print axioms Qvc.mono_ssq
#print axioms Qvc.forall_mem_bsq
#print axioms Qvc.forall_mem_ssq
#print axioms Qvc.forall_mem_append_iff
#print axioms Qvc.bsq_def
#print axioms Qvc.ssq_def
#print axioms Qvc.mono_bool_dup
#print axioms Qvc.mono_spin_dup
#print axioms Qvc.mono_pair
#print axioms Qvc.zval_spin
#print axioms Qvc.negcount_eq_countP
#print axioms Qvc.mono_spin_negcount_ite
#print axioms Qvc.finset_sum_update
#print axioms Qvc.finset_sum_update_of_notMem
#print axioms Qvc.finsupp_sum_update
#print axioms Qvc.finsupp_sum_erase
#print axioms Qvc.finsupp_sum_insert_fresh
#print axioms Qvc.dict_sum_set
#print axioms Qvc.dict_sum_pop
#print axioms Qvc.dict_sum_put
#print axioms Qvc.dict_all_split
#print axioms Qvc.dict_all_set
#print axioms Qvc.dict_all_pop
#print axioms Qvc.mono_congr
#print axioms Qvc.mono_map
#print axioms Qvc.mono_relabel
#print axioms Qvc.mono_relabel_zval
#print axioms Qvc.relabel_length
#print axioms Qvc.relabel_getElem
#print axioms Qvc.relabel_getElem?
#print axioms Qvc.mem_relabel
#print axioms Qvc.forall_mem_relabel
#print axioms Qvc.srt_def
#print axioms Qvc.srt_perm
#print axioms Qvc.mono_srt
#print axioms Qvc.srt_length
#print axioms Qvc.mem_srt
#print axioms Qvc.srt_count
#print axioms Qvc.srt_sorted
#print axioms Qvc.srt_of_sorted
#print axioms Qvc.srt_idem
#print axioms Qvc.srt_of_length_le_one
#print axioms Qvc.forall_mem_srt_iff
#print axioms Qvc.srt_unique
#print axioms Qvc.bsq_eq_srt_dedup
#print axioms Qvc.mono_filter_mul
#print axioms Qvc.mono_split
#print axioms Qvc.filter_length_add
#print axioms Qvc.split_length_add
#print axioms Qvc.mem_filter_iff
#print axioms Qvc.memset_filter
#print axioms Qvc.memset_filter_mem
#print axioms Qvc.memset_filter_notMem
#print axioms Qvc.forall_mem_filter
#print axioms Qvc.mono_value_product
#print axioms Qvc.value_product_nil
#print axioms Qvc.bsq_eq_self_iff
#print axioms Qvc.ssq_eq_self_iff
#print axioms Qvc.bsq_eq_self_iff_ssq_eq_self
#print axioms Qvc.bsq_of_sublist
#print axioms Qvc.ssq_of_sublist
#print axioms Qvc.bsq_filter
#print axioms Qvc.ssq_filter
#print axioms Qvc.bsq_tail
#print axioms Qvc.ssq_tail
#print axioms Qvc.memset_nil
#print axioms Qvc.memset_singleton
#print axioms Qvc.memset_pair
#print axioms Qvc.memset_cons
#print axioms Qvc.memset_append
#print axioms Qvc.mem_memset
#print axioms Qvc.card_insert_ite
#print axioms Qvc.memset_card_le
#print axioms Qvc.memset_bsq
#print axioms Qvc.memset_ssq_subset
#print axioms Qvc.memset_srt
#print axioms Qvc.bsq_length_eq_card
#print axioms Qvc.slack_zero
#print axioms Qvc.slack_succ
#print axioms Qvc.pow2_pos
#print axioms Qvc.pow2_zero
#print axioms Qvc.pow2_succ
#print axioms Qvc.slack_log_lt
#print axioms Qvc.slack_log_le
#print axioms Qvc.slack_log_attained_of_lt
#print axioms Qvc.slack_log_attained
#print axioms Qvc.sum_pow2_bits_attained
#print axioms Qvc.sum_pow2_bits_le
#print axioms Qvc.slack_log_range
#print axioms Qvc.slack_unary_le
#print axioms Qvc.slack_unary_attained
#print axioms Qvc.slack_unary_range
#print axioms Qvc.sum_bits_attained
#print axioms Qvc.sum_bits_le
#print axioms Qvc.slack_le_cap
#print axioms Qvc.slack_attained
#print axioms Qvc.slack_attained_fin
#print axioms Qvc.nat_le_cap_size
#print axioms Qvc.real_le_ceil
#print axioms Qvc.real_le_cap_size
#print axioms Qvc.le_cap_numBits
#print axioms Qvc.slack_attained_numBits
#print axioms Qvc.finset_eq_of_card_nodup
#print axioms Qvc.mem_iff_of_card_nodup
#print axioms Qvc.dict_sum_enum
#print axioms Qvc.dict_all_enum
#print axioms Qvc.finsupp_sum_enum
#print axioms Qvc.dict_dom_chain
#print axioms Qvc.dict_dom_chain_empty
#print axioms Qvc.dict_val_chain
#print axioms Qvc.dict_enum_chain
#print axioms Qvc.finset_card_zero_enum
#print axioms Qvc.finset_card_one_enum
#print axioms Qvc.finset_card_two_enum
#print axioms Qvc.finset_card_three_enum
#print axioms Qvc.dict_sum_enum_zero
#print axioms Qvc.dict_sum_enum_one
#print axioms Qvc.dict_sum_enum_two
#print axioms Qvc.dict_sum_enum_three
#print axioms Qvc.dict_all_enum_zero
#print axioms Qvc.dict_all_enum_one
#print axioms Qvc.dict_all_enum_two
#print axioms Qvc.dict_all_enum_three
#print axioms Qvc.dict_size_eq_card
#print axioms Qvc.exists_enum
#print axioms Qvc.bterm_eq_mul
#print axioms Qvc.sterm_eq_mul
#print axioms Qvc.sum_mono_bool_eq_count
#print axioms Qvc.dval_const_count
#print axioms Qvc.count_le_size
#print axioms Qvc.dval_const_count_exists
#print axioms Qvc.dval_const_count_int
#print axioms Qvc.mono_of_all_zero
#print axioms Qvc.mono_of_all_one
#print axioms Qvc.mono_origin
#print axioms Qvc.zval_origin
#print axioms Qvc.mono_zval_origin
#print axioms Qvc.origin_key
#print axioms Qvc.dval_origin
#print axioms Qvc.dval_all_one
#print axioms Qvc.dval_zval_origin
#print axioms Qvc.dval_origin_eq_constpart
#print axioms Qvc.isInt_witness
#print axioms Qvc.isInt_intCast
#print axioms Qvc.isInt_natCast
#print axioms Qvc.isInt_zero
#print axioms Qvc.isInt_one
#print axioms Qvc.isInt_neg_one
#print axioms Qvc.isInt_two
#print axioms Qvc.isInt_add
#print axioms Qvc.isInt_sub
#print axioms Qvc.isInt_mul
#print axioms Qvc.isInt_neg
#print axioms Qvc.isInt_ite
#print axioms Qvc.isInt_list_sum
#print axioms Qvc.isInt_list_prod
#print axioms Qvc.isInt_ratCast_iff
#print axioms Qvc.isInt_of_bool
#print axioms Qvc.isInt_iff_floor
#print axioms Qvc.ite_ge_eq_max
#print axioms Qvc.lanc_of_isanc
#print axioms Qvc.lanc_of_not_isanc
#print axioms Qvc.lanc_nonneg
#print axioms Qvc.lanc_nonneg_of_nonneg
#print axioms Qvc.keyanc_nil
#print axioms Qvc.keyanc_cons
#print axioms Qvc.keyanc_nonneg
#print axioms Qvc.keyanc_singleton_max
#print axioms Qvc.keyanc_singleton
#print axioms Qvc.keyanc_pair
#print axioms Qvc.keyanc_key_facts
#print axioms Qvc.keyanc_append
#print axioms Qvc.keyanc_head_tail
#print axioms Qvc.keyanc_getElem_zero_tail
#print axioms Qvc.keyanc_tail_le
#print axioms Qvc.keyanc_le_iff
#print axioms Qvc.lanc_le_keyanc
#print axioms Qvc.keyanc_eq_zero_or_attained
#print axioms Qvc.keyanc_mono
#print axioms Qvc.keyanc_congr_mem
#print axioms Qvc.keyanc_perm
#print axioms Qvc.keyanc_sublist
#print axioms Qvc.keyanc_filter_le
#print axioms Qvc.keyanc_memset_mono
#print axioms Qvc.keyanc_memset_congr
#print axioms Qvc.keyanc_eq_sup_memset
#print axioms Qvc.keyanc_bsq
#print axioms Qvc.keyanc_ssq_le
#print axioms Qvc.keyanc_srt
#print axioms Qvc.keyanc_dedup
#print axioms Qvc.ancidx_succ_le_keyanc
#print axioms Qvc.ancidx_lt_keyanc
#print axioms Qvc.ancidx_lt_of_keyanc_le
#print axioms Qvc.keyanc_le_iff_ancbelow
#print axioms Qvc.keyanc_eq_zero_iff
#print axioms Qvc.ancbelow_mono
#print axioms Qvc.keyanc_fold_mono
#print axioms Qvc.ancbelow_subset
#print axioms Qvc.ancbelow_insert
#print axioms Qvc.ancbelow_empty
#print axioms Qvc.ancbelow_nonneg
#print axioms Qvc.ancbelow_iff
#print axioms Qvc.anc_injective
#print axioms Qvc.anc_eq_iff
#print axioms Qvc.lanc_anc
#print axioms Qvc.keyanc_unit_anc
#print axioms Qvc.anc_notMem_of_keyanc_le
#print axioms Qvc.anc_notMem_of_keyanc_le_nat
#print axioms Qvc.anc_fresh_of_ancbelow
#print axioms Qvc.ancZ_notMem_of_keyanc_le
#print axioms Qvc.ancZ_eq_iff
#print axioms Qvc.keyanc_append_anc_le
#print axioms Qvc.keyanc_singleton_nat
#print axioms Qvc.keyanc_pair_nat
#print axioms Qvc.penM_def
#print axioms Qvc.penM_ge_obj
#print axioms Qvc.penM_ge_obj_add_lam
#print axioms Qvc.penM_eq_obj_of_attained
#print axioms Qvc.lam_pos_of_gap
#print axioms Qvc.penM_minimiser_feasible
#print axioms Qvc.penM_minimiser_value
#print axioms Qvc.penM_minimiser_penalties_zero
#print axioms Qvc.penM_minimiser_optimal
#print axioms Qvc.penM_minimiser_spec
#print axioms Qvc.penM_ge_of_feasible_optimal
#print axioms Qvc.penM_minimiser_of_feasible_optimal
#print axioms Qvc.penM_exists_minimiser_of_feasible_optimal
#print axioms Qvc.penM_isLeast_iff
#print axioms Qvc.penM_isLeast_of_le
#print axioms Qvc.exists_feasible_optimal
#print axioms Qvc.penM_exists_minimiser
#print axioms Qvc.penM_min_eq_constrained_opt
#print axioms Qvc.penM_unit
#print axioms Qvc.pen1_minimiser_spec
#print axioms Qvc.pen1_minimiser_of_feasible_optimal
#print axioms Qvc.pen1_isLeast_iff
#print axioms Qvc.joint_attainment_of_blocks
#print axioms Qvc.joint_attainment_of_disjoint_support
#print axioms Qvc.penM_blocks_minimiser_spec
#print axioms Qvc.penM_blocks_minimiser_of_feasible_optimal
#print axioms Qvc.penM_blocks_isLeast_iff
#print axioms Qvc.red_minimiser_conv
#print axioms Qvc.red_minimiser_lift
#print axioms Qvc.red_isLeast_iff
#print axioms Qvc.red_min_eq
#print axioms Qvc.red_argmin_image
#print axioms Qvc.red_exists_minimiser
#print axioms Qvc.red_R1_comp
#print axioms Qvc.red_R2_comp
#print axioms Qvc.red_R_id
#print axioms Qvc.red_R_affine
#print axioms Qvc.red_penM_minimiser_spec
#print axioms Qvc.red_penM_lift
#print axioms Qvc.red_penM_isLeast_iff
#print axioms Qvc.red_penM_exists_minimiser
#print axioms Qvc.bool_mul_self
#print axioms Qvc.mono_removed_pair
#print axioms Qvc.mono_reduce_pair
#print axioms Qvc.mono_reduce_pair_subst
#print axioms Qvc.gadget_never_undercuts
#print axioms Qvc.gadget_exact
