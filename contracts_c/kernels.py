"""Sidecar contracts for the C annealing kernels (property C17: memory safety).

Nothing in /repo is edited; the verifier (vf/qvc_c) re-reads the .c files through clang on every run and
checks them against the clauses below.  Clause language: see vf/qvc_c/spec.py.

A clause is either a string or a pair (clause, provenance).  For the two entry points ``anneal_quso`` and
``anneal_puso`` every ``requires`` clause carries the line of ``qubovert/sim/_anneal.py`` (the Python front
end that builds the lists) and/or ``qubovert/sim/_canneal.c`` (the marshalling wrapper that turns the lists
into C arrays) that provides it.  The wrapper and the CPython API are out of scope: that the wrapper really
allocates and fills the buffers as written there is an *assumption* (reported as such), not a proved fact.
Clauses under ``assumes`` are NOT guaranteed by the callers; they are explicit size assumptions and are
reported in ``run_all()["assumptions"]``.

Loop invariants are keyed by function + loop ordinal (source order) + header text.  Counter bounds such as
``0 <= i <= len_state`` are not written here: the verifier derives them from the *current* header
(``for(v = a; v < b; v++)``  gives  ``a <= v``  and  ``v == a or v <= b``) and proves them like any invariant.
"""

# --------------------------------------------------------------------------- shared clause groups

def _csr(n):
    """compressed-row structure handed from anneal_quso to its helpers; n = number of spins"""
    return [
        "len(num_neighbors) == %s" % n, "initialised(num_neighbors, %s)" % n,
        "len(index) == %s" % n, "initialised(index, %s)" % n,
        "len(J) == len(neighbors)", "initialised(neighbors, len(neighbors))", "initialised(J, len(J))",
        "forall(k, 0, %s, 0 <= index[k] and 0 <= num_neighbors[k] and index[k] + num_neighbors[k] <= len(neighbors))" % n,
        "forall(k, 0, len(neighbors), 0 <= neighbors[k] and neighbors[k] < %s)" % n,
    ]


_SPINS = ["initialised(state, len(state))", "forall(k, 0, len(state), spin(state[k]))"]

_TERMS = [   # term structure handed from anneal_puso to its helpers (those that get `index`)
    "len(index) == len(num_couplings)", "len(couplings) == len(num_couplings)",
    "initialised(index, len(index))", "initialised(num_couplings, len(num_couplings))",
    "initialised(couplings, len(couplings))", "initialised(terms, len(terms))",
    "forall(t, 0, len(num_couplings), 0 <= index[t] and 0 <= num_couplings[t] and index[t] + num_couplings[t] <= len(terms))",
    "forall(k, 0, len(terms), 0 <= terms[k] and terms[k] < len(state))",
]

_SUBGRAPHS = [   # rows of the `long **subgraphs`: row s has length subgraphs[s][0] + 1, fully written, entries are term numbers
    "len(subgraphs) == len(state)", "initialised(subgraphs, len(subgraphs))",
    "forall(s, 0, len(subgraphs), alive(subgraphs[s]) and subgraphs[s][0] >= 0 and len(subgraphs[s]) == subgraphs[s][0] + 1"
    " and initialised(subgraphs[s], len(subgraphs[s])))",
    "forall(s, 0, len(subgraphs), forall(m, 1, len(subgraphs[s]), 0 <= subgraphs[s][m] and subgraphs[s][m] < len(num_couplings)))",
]

_STATES_IN = ("implies(initial_state_provided != 0, initialised(states, len(states)) and "
              "forall(k, 0, len(states), spin(states[k])))")


FUNCTIONS = {}

# --------------------------------------------------------------------------- anneal_quso.c

FUNCTIONS["compute_flip_dE"] = {
    "file": "anneal_quso.c",
    "requires": ["len_state >= 0", "len(flip_spin_dE) == len_state", "len(state) == len_state", "len(h) == len_state",
                 "initialised(state, len_state)", "initialised(h, len_state)"] + _csr("len_state"),
    "modifies": ["flip_spin_dE"],
    "ensures": ["initialised(flip_spin_dE, len_state)"],
    "loops": [
        {"header": "for(i=0; i<len_state; i++)", "invariant": ["initialised(flip_spin_dE, i)"]},
        {"header": "for(j=0; j<num_neighbors[i]; j++)", "invariant": []},
    ],
}

FUNCTIONS["recompute_flip_dE"] = {
    "file": "anneal_quso.c",
    "requires": ["0 <= spin and spin < len(state)", "len(flip_spin_dE) == len(state)",
                 "initialised(flip_spin_dE, len(flip_spin_dE))", "initialised(state, len(state))"] + _csr("len(state)"),
    "modifies": ["flip_spin_dE"],
    "ensures": ["initialised(flip_spin_dE, len(flip_spin_dE))"],
    "loops": [
        {"header": "for(j=0; j<num_neighbors[spin]; j++)", "invariant": ["initialised(flip_spin_dE, len(flip_spin_dE))"]},
    ],
}

FUNCTIONS["single_anneal_quso"] = {
    "file": "anneal_quso.c",
    "requires": ["len_state >= 0", "len(state) == len_state", "len(h) == len_state", "initialised(h, len_state)",
                 "len(Ts) == len_Ts", "initialised(Ts, len_Ts)"] + _SPINS + _csr("len_state"),
    "modifies": ["state"],
    "ensures": _SPINS,
    "loops": [
        {"header": "for(t=0; t<len_Ts; t++)",
         "invariant": ["initialised(flip_spin_dE, len_state)"] + _SPINS},
        {"header": "for(j=0; j<len_state; j++)",
         "invariant": ["initialised(flip_spin_dE, len_state)"] + _SPINS},
    ],
}

FUNCTIONS["quso_value"] = {
    "file": "anneal_quso.c",
    "requires": ["len_state >= 0", "len(state) == len_state", "len(h) == len_state",
                 "initialised(state, len_state)", "initialised(h, len_state)"] + _csr("len_state"),
    "modifies": [],
    "ensures": [],
    "loops": [
        {"header": "for(i=0; i<len_state; i++)", "invariant": []},
        {"header": "for(j=0; j<num_neighbors[i]; j++)", "invariant": []},
    ],
}

FUNCTIONS["anneal_quso"] = {
    "file": "anneal_quso.c",
    "entry_point": True,
    "requires": [
        ("num_anneals >= 1", "_anneal.py:425-426 returns before calling C when num_anneals <= 0; _canneal.c:134-137 parses it with 'i'"),
        ("len_state >= 1", "_anneal.py:449-452 returns before calling C when N == 0; _anneal.py:462 h = [0.]*N; _canneal.c:141 len_state = PyList_Size(py_h)"),
        ("len(h) == len_state", "_canneal.c:144 malloc(len_state * sizeof(double))"),
        ("initialised(h, len_state)", "_canneal.c:151-154 fills h[i], num_neighbors[i] for i < len_state"),
        ("len(num_neighbors) == len_state", "_anneal.py:462 num_neighbors = [0]*N; _canneal.c:145"),
        ("initialised(num_neighbors, len_state)", "_canneal.c:151-154"),
        ("forall(k, 0, len_state, num_neighbors[k] >= 0)", "_anneal.py:462,473-474 starts at 0 and is only incremented"),
        ("len(J) == len(neighbors)", "_anneal.py:471-476 J[i] and neighbors[i] are appended to together; _canneal.c:142,146-147 both buffers get len_J cells"),
        ("initialised(neighbors, len(neighbors))", "_canneal.c:155-158 fills neighbors[i], J[i] for i < len_J"),
        ("initialised(J, len(J))", "_canneal.c:155-158"),
        ("psum(num_neighbors, len_state) == len(neighbors)",
         "_anneal.py:471-474,479 num_neighbors[i] == len(neighbors[i]) for every i and the flat list is chain(*neighbors)"),
        ("forall(k, 0, len(neighbors), 0 <= neighbors[k] and neighbors[k] < len_state)",
         "_anneal.py:433-444 model is L (QUSOMatrix: labels are non-negative ints <= max_index = N-1) or L.to_quso() (labels 0..num_binary_variables-1 = 0..N-1); :469-472 exactly those labels are appended"),
        ("len(Ts) == len_Ts", "_canneal.c:143,148"),
        ("initialised(Ts, len_Ts)", "_canneal.c:159-161"),
        ("len(values) == num_anneals", "_canneal.c:164 malloc(num_anneals * sizeof(double))"),
        ("len(states) == num_anneals * len_state", "_canneal.c:165 malloc(num_anneals * len_state * sizeof(int))"),
        (_STATES_IN, "_canneal.c:167-178 the buffer is filled from initial_state exactly when initial_state_provided != 0; "
                     "_anneal.py:454-457 and the docstring (:347-349): initial_state maps every label to 1 or -1"),
    ],
    "assumes": [
        ("num_anneals * len_state <= INT_MAX",
         "size product fits in int: _canneal.c:165 computes num_anneals * len_state in int and the kernel computes "
         "i * len_state + j in int; nothing in the Python front end bounds num_anneals * N"),
    ],
    "lemmas": ["psum_bounds(num_neighbors, len_state)"],
    "modifies": ["states", "values"],
    "ensures": ["initialised(values, num_anneals)", "initialised(states, len(states))"],
    "loops": [
        {"header": "for(i=1; i<len_state; i++)",
         "invariant": ["initialised(index, i)",
                       "forall(k, 0, i, index[k] == psum(num_neighbors, k) and "
                       "index[k] + num_neighbors[k] == psum(num_neighbors, k + 1))"]},
        {"header": "for(i=0; i<num_anneals; i++)",
         "invariant": [_STATES_IN, "initialised(values, i)", "initialised(states, i * len_state)"]},
        {"header": "for(j=0; j<len_state; j++)",
         "invariant": ["initialised(state, j)", "forall(k, 0, j, spin(state[k]))"]},
        {"header": "for(j=0; j<len_state; j++)",
         "invariant": [_STATES_IN, "initialised(states, i * len_state + j)"]},
    ],
}

# --------------------------------------------------------------------------- anneal_puso.c

FUNCTIONS["puso_subgraph_value"] = {
    "file": "anneal_puso.c",
    "requires": ["0 <= spin and spin < len(state)"] + _SPINS + _TERMS + _SUBGRAPHS,
    "modifies": [],
    "ensures": [],
    "loops": [
        {"header": "for(i=1; i<=subgraphs[spin][0]; i++)", "invariant": []},
        {"header": "for(j=0; j<num_couplings[term]; j++)", "invariant": ["spin(product)"]},
    ],
}

FUNCTIONS["single_anneal_puso"] = {
    "file": "anneal_puso.c",
    "requires": ["len_state >= 0", "len(state) == len_state", "len(Ts) == len_Ts", "initialised(Ts, len_Ts)"]
                + _SPINS + _TERMS + _SUBGRAPHS,
    "modifies": ["state"],
    "ensures": _SPINS,
    "loops": [
        {"header": "for(t=0; t<len_Ts; t++)", "invariant": _SPINS},
        {"header": "for(j=0; j<len_state; j++)", "invariant": _SPINS},
    ],
}

FUNCTIONS["puso_value"] = {
    "file": "anneal_puso.c",
    "requires": ["num_terms >= 0", "len(num_couplings) == num_terms", "len(couplings) == num_terms",
                 "initialised(num_couplings, num_terms)", "initialised(couplings, num_terms)",
                 "initialised(terms, len(terms))",
                 "forall(t, 0, num_terms, num_couplings[t] >= 0)",
                 "psum(num_couplings, num_terms) == len(terms)",
                 "forall(k, 0, len(terms), 0 <= terms[k] and terms[k] < len(state))"] + _SPINS,
    "lemmas": ["psum_bounds(num_couplings, num_terms)"],
    "modifies": [],
    "ensures": [],
    "loops": [
        {"header": "for(long term=0; term<num_terms; term++)", "invariant": ["index == psum(num_couplings, term)"]},
        {"header": "for(_=0; _<num_couplings[term]; _++)",
         "invariant": ["index == psum(num_couplings, term) + _", "spin(product)"]},
    ],
}

_ROWS = (  # rows of subgraphs while they are being built in anneal_puso; `bound` = number of term entries processed so far
    "forall(s, 0, len_state, alive(subgraphs[s]) and subgraphs[s][0] >= 0 and len(subgraphs[s]) == subgraphs[s][0] + 1"
    " and initialised(subgraphs[s], len(subgraphs[s])) and subgraphs[s][0] <= %s)")
_ROW_ENTRIES = "forall(s, 0, len_state, forall(m, 1, len(subgraphs[s]), 0 <= subgraphs[s][m] and subgraphs[s][m] < num_terms))"
_INDEX_PREFIX = ("forall(k, 0, term, index[k] == psum(num_couplings, k) and "
                 "index[k] + num_couplings[k] == psum(num_couplings, k + 1))")

FUNCTIONS["anneal_puso"] = {
    "file": "anneal_puso.c",
    "entry_point": True,
    "requires": [
        ("num_anneals >= 1", "_anneal.py:265-266 returns before calling C when num_anneals <= 0"),
        ("len_state >= 1", "_anneal.py:295-298 returns before calling C when N == 0; _canneal.c:261-265 parses N with 'i'"),
        ("num_terms >= 0", "_canneal.c:270 num_terms = PyList_Size(py_couplings); it IS 0 for a model whose only key is () "
                           "(_anneal.py:310-314 skips the empty term) while N >= 1 (PUSOMatrix/ max_index, or a QUSO/PUSO that "
                           "remembers variables whose terms cancelled)"),
        ("len(num_couplings) == num_terms", "_anneal.py:312-314 couplings and num_couplings are appended to together; _canneal.c:271 malloc(num_terms * sizeof(int))"),
        ("len(couplings) == num_terms", "_canneal.c:274"),
        ("initialised(num_couplings, num_terms)", "_canneal.c:280-283"),
        ("initialised(couplings, num_terms)", "_canneal.c:280-283"),
        ("forall(t, 0, num_terms, num_couplings[t] >= 1)", "_anneal.py:311,314 only non-empty terms are appended and num_couplings gets len(term)"),
        ("psum(num_couplings, num_terms) == len(terms)", "_anneal.py:313-314 terms.extend(term) together with num_couplings.append(len(term)); _canneal.c:272-273 terms gets PyList_Size(py_terms) cells"),
        ("initialised(terms, len(terms))", "_canneal.c:277-279"),
        ("forall(k, 0, len(terms), 0 <= terms[k] and terms[k] < len_state)",
         "_anneal.py:274,281-282 model is H (Matrix: labels 0..max_index, N = max_index+1) or H.to_puso() (labels 0..num_binary_variables-1)"),
        ("len(Ts) == len_Ts", "_canneal.c:268-269"),
        ("initialised(Ts, len_Ts)", "_canneal.c:284-286"),
        ("len(values) == num_anneals", "_canneal.c:289"),
        ("len(states) == num_anneals * len_state", "_canneal.c:290"),
        (_STATES_IN, "_canneal.c:292-303; _anneal.py:300-303 and docstring (:184-186)"),
    ],
    "assumes": [
        ("num_anneals * len_state <= INT_MAX",
         "size product fits in int: _canneal.c:290 and the kernel's i * len_state + j are int computations; not bounded by the front end"),
        ("len(terms) < INT_MAX",
         "the kernel stores the running count of terms per spin, subgraphs[j][0] (a long), into the int k and computes k+1 in int; "
         "the count is bounded by the total number of term entries, which nothing bounds below 2^31"),
    ],
    "lemmas": ["psum_bounds(num_couplings, num_terms)"],
    "modifies": ["states", "values"],
    "ensures": ["initialised(values, num_anneals)", "initialised(states, len(states))"],
    "loops": [
        {"header": "for(i=0; i<len_state; i++)",
         "invariant": ["initialised(subgraphs, i)",
                       "forall(s, 0, i, alive(subgraphs[s]) and len(subgraphs[s]) == 1 and subgraphs[s][0] == 0 and "
                       "initialised(subgraphs[s], 1))",
                       "forall(s, i, len_state, not alive(subgraphs[s]))"]},
        {"header": "for(long term=0; term<num_terms; term++)",
         "invariant": ["initialised(index, term)",
                       "implies(num_terms > 0, initialised(index, 1) and index[0] == 0)",
                       _INDEX_PREFIX,
                       "initialised(subgraphs, len_state)",
                       _ROWS % "psum(num_couplings, term)", _ROW_ENTRIES]},
        {"header": "for(i=0; i<num_couplings[term]; i++)",
         "invariant": ["initialised(subgraphs, len_state)", _ROWS % "index[term] + i", _ROW_ENTRIES]},
        {"header": "for(i=0; i<num_anneals; i++)",
         "invariant": [_STATES_IN, "initialised(values, i)", "initialised(states, i * len_state)"]},
        {"header": "for(j=0; j<len_state; j++)",
         "invariant": ["initialised(state, j)", "forall(k, 0, j, spin(state[k]))"]},
        {"header": "for(j=0; j<len_state; j++)",
         "invariant": [_STATES_IN, "initialised(states, i * len_state + j)"]},
        {"header": "for(i=0; i<len_state; i++)",
         "invariant": ["forall(s, 0, i, not alive(subgraphs[s]))", "forall(s, i, len_state, alive(subgraphs[s]))"]},
    ],
}

# --------------------------------------------------------------------------- random.c

FUNCTIONS["rand_int"] = {
    "file": "random.c",
    "requires": ["stop > 0"],
    "ensures": ["0 <= result and result < stop"],
    "loops": [],
}
FUNCTIONS["rand_double"] = {"file": "random.c", "requires": [], "ensures": [], "loops": [],
                            "note": "the range [0,1) of the result is a statement about doubles; doubles carry no value here"}
FUNCTIONS["rand_seed"] = {"file": "random.c", "requires": [], "ensures": [], "loops": [], "writes_opaque": ["rng"]}
FUNCTIONS["rand_init"] = {"file": "random.c", "requires": [], "ensures": [], "loops": [], "returns": "opaque"}

# --------------------------------------------------------------------------- external functions (trusted specifications)

EXTERNAL = {
    "pcg32_boundedrand_r": {"params": ["rng", "bound"], "requires": ["bound > 0"], "returns": "uint",
                            "ensures": ["0 <= result and result < bound"],
                            "trusted": "pcg_basic.c: pcg32_boundedrand_r(rng, bound) returns r with 0 <= r < bound; "
                                       "bound == 0 would divide by zero (-bound % bound), hence the precondition"},
    "pcg32_random_r": {"params": ["rng"], "requires": [], "returns": "uint", "ensures": [],
                       "trusted": "pcg_basic.c: returns a uint32_t, updates *rng only"},
    "pcg32_srandom_r": {"params": ["rng", "initstate", "initseq"], "requires": [], "returns": "void", "ensures": [],
                        "writes_opaque": ["rng"], "trusted": "pcg_basic.c: initialises *rng from the two numbers"},
    "time": {"params": ["timer"], "requires": [], "returns": "long", "ensures": [], "nullable": ["timer"],
             "trusted": "libc time(NULL)"},
    "ldexp": {"params": ["x", "e"], "requires": [], "returns": "double", "ensures": [], "trusted": "libm"},
    "exp": {"params": ["x"], "requires": [], "returns": "double", "ensures": [], "trusted": "libm"},
}

FILES = ["anneal_quso.c", "anneal_puso.c", "random.c"]
SRC_DIR = "qubovert/sim/src"

GLOBAL_ASSUMPTIONS = [
    "malloc/realloc succeed (the kernels never test the result for NULL; allocation failure is outside the model)",
    "the marshalling wrapper qubovert/sim/_canneal.c and the CPython API behave as the quoted lines say "
    "(buffers of the stated sizes, filled for the stated index ranges); they are not verified here",
    "distinct pointer parameters of the entry points point to distinct blocks (_canneal.c allocates each buffer separately)",
    "double arithmetic, comparisons and libm calls have no undefined behaviour (IEEE-754 / Annex F); doubles carry no value",
    "every object is at most PTRDIFF_MAX bytes (ghost length * element size <= 2^63-1)",
]
